#!/bin/bash
# usage: tools_mutant.sh <patch.diff> <check id...>
# Applies a patch in a scratch worktree of /repo's HEAD (never in /repo itself), runs the quick checks
# against it through VERIF_REPO, and removes the worktree again.
P="$(realpath "$1")"; shift
WT="$(mktemp -d /tmp/vmut.XXXXXX)"
git -C /repo worktree add -q --detach "$WT" HEAD >/dev/null 2>&1 || { echo "cannot create worktree"; exit 2; }
trap 'git -C /repo worktree remove --force "$WT" >/dev/null 2>&1; rm -rf "$WT"' EXIT
git -C "$WT" apply "$P" || { echo "patch does not apply"; exit 2; }
for c in "$@"; do
  echo "== $c with $(basename $P)"
  VERIF_REPO="$WT" VERIF_NO_EVIDENCE=1 ./vcheck "$c" --tier "${TIER:-quick}" 2>&1 | grep -E "^(VIOLATION|KNOWN|HARNESS|C[0-9]+ tier|  bucket|  detail)" | head -${LINES_MAX:-9}
done
