#!/bin/bash
# usage: tools_mutant.sh <patch.diff> <check id...>   -- apply a patch to /repo, run quick checks, always revert.
P="$1"; shift
git -C /repo apply "$(realpath "$P")" || { echo "patch does not apply"; exit 2; }
trap 'git -C /repo checkout -- . ' EXIT
for c in "$@"; do
  echo "== $c with $(basename $P)"
  VERIF_NO_EVIDENCE=1 ./vcheck "$c" --tier quick 2>&1 | grep -E "^(VIOLATION|KNOWN|HARNESS|C[0-9]+ tier|  bucket|  detail)" | head -12
done
