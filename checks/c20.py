"""C20 - graph validation and condition expressions are sound and total.

(a) stage graphs: valid DAGs by construction plus injected defects; oracle = independent
    validator (unique refs, known refs, no self edge, DFS acyclic) and a permutation /
    ordering check of topological_sort.
(b) expressions: recursive grammar over every supported and unsupported construct, raw text,
    deep nesting; oracle = "returns or raises ExpressionError", context unchanged, sentinel
    callable never invoked; a truthiness differential against Python's own eval on the
    sub-language where both are defined.
(c) atheris byte-level campaign on (b)'s totality oracle (sub-process; skipped if atheris
    is not importable, and said so in the evidence).
"""

from __future__ import annotations

import ast
import copy
import json
import os
import random
import subprocess
import sys
import tempfile
import shutil
from typing import Any

from hypothesis import HealthCheck, Phase, find, given, seed as hseed, settings, strategies as st
from hypothesis.errors import NoSuchExample

from vlib.campaign import Campaign, chash
from vlib.par import run_shards

LEVEL = "exploration"

# --------------------------------------------------------------------------- graphs

REF_POOL = ["a", "b", "c", "d", "e", "f", "g", "h", "", "A", "ß", "a b", "0", "_x", "é"]


@st.composite
def graph_case(draw) -> dict[str, Any]:
    """A stage graph description: list of {ref, req:[...], synthetic:bool} + which defects were injected."""
    n = draw(st.integers(0, 8))
    refs = draw(st.lists(st.sampled_from(REF_POOL) | st.text(max_size=4), min_size=n, max_size=n, unique=True))
    stages = []
    for i, r in enumerate(refs):
        k = draw(st.integers(0, min(i, 3)))
        req = draw(st.lists(st.sampled_from(refs[:i]), min_size=k, max_size=k, unique=True)) if i and k else []
        stages.append({"ref": r, "req": sorted(req), "synthetic": False})
    defects = draw(st.lists(st.sampled_from(["dup", "self", "unknown", "cycle", "synthetic", "synthetic_edge"]),
                            max_size=3, unique=True))
    applied = []
    for d in defects:
        if d == "dup" and stages:
            src = draw(st.sampled_from(stages))
            stages.insert(draw(st.integers(0, len(stages))), {"ref": src["ref"], "req": [], "synthetic": False})
            applied.append(d)
        elif d == "self" and stages:
            s = draw(st.sampled_from(stages))
            s["req"] = sorted(set(s["req"]) | {s["ref"]})
            applied.append(d)
        elif d == "unknown" and stages:
            s = draw(st.sampled_from(stages))
            s["req"] = sorted(set(s["req"]) | {draw(st.sampled_from(["zz", "nope", "a ", "Ab"]))})
            applied.append(d)
        elif d == "cycle" and len(stages) >= 2:
            ln = draw(st.integers(2, min(5, len(stages))))
            idx = draw(st.lists(st.integers(0, len(stages) - 1), min_size=ln, max_size=ln, unique=True))
            for a, b in zip(idx, idx[1:] + idx[:1]):
                stages[b]["req"] = sorted(set(stages[b]["req"]) | {stages[a]["ref"]})
            applied.append(d)
        elif d == "synthetic" and stages:
            # a synthetic child (not part of the top-level graph; may reuse a ref or carry any requisites)
            stages.append({"ref": draw(st.sampled_from(REF_POOL)), "req": draw(st.lists(st.sampled_from(REF_POOL), max_size=2)),
                           "synthetic": True})
            applied.append(d)
        elif d == "synthetic_edge" and stages:
            # top-level stage requires a ref that only a synthetic child carries -> unknown for the top level
            stages.append({"ref": "syn_only", "req": [], "synthetic": True})
            s = draw(st.sampled_from([x for x in stages if not x["synthetic"]]))
            s["req"] = sorted(set(s["req"]) | {"syn_only"})
            applied.append(d)
    order = draw(st.permutations(list(range(len(stages)))))
    return {"stages": [stages[i] for i in order], "defects": applied}


def reference_validator(stages: list[dict[str, Any]]) -> str | None:
    """Independent validator over the top-level stages. Returns None if valid, else the defect class."""
    top = [s for s in stages if not s["synthetic"]]
    refs = [s["ref"] for s in top]
    if len(set(refs)) != len(refs):
        return "dup"
    known = set(refs)
    for s in top:
        if s["ref"] in s["req"]:
            return "self"
    for s in top:
        if not set(s["req"]) <= known:
            return "unknown"
    # DFS three-colour cycle detection
    req = {s["ref"]: list(s["req"]) for s in top}
    colour: dict[str, int] = {}

    def visit(r: str) -> bool:
        colour[r] = 1
        for u in req[r]:
            c = colour.get(u, 0)
            if c == 1:
                return True
            if c == 0 and visit(u):
                return True
        colour[r] = 2
        return False

    for r in req:
        if colour.get(r, 0) == 0 and visit(r):
            return "cycle"
    return None


def build_stages(case: dict[str, Any]):
    from stabilize.models.stage import StageExecution, SyntheticStageOwner

    out = []
    parent_id = None
    for i, s in enumerate(case["stages"]):
        st_ = StageExecution.create(type="t", name=f"n{i}", ref_id=s["ref"], context={},
                                    requisite_stage_ref_ids=set(s["req"]))
        out.append(st_)
    tops = [o for o, s in zip(out, case["stages"]) if not s["synthetic"]]
    for o, s in zip(out, case["stages"]):
        if s["synthetic"]:
            o.parent_stage_id = tops[0].id if tops else "orphan-parent"
            o.synthetic_stage_owner = SyntheticStageOwner.STAGE_BEFORE
    return out


def check_graph(case: dict[str, Any]) -> tuple[str, str] | None:
    """Returns (bucket, detail) on violation."""
    from stabilize.dag.topological import CircularDependencyError, InvalidStageGraphError, topological_sort
    from stabilize.models.workflow import Workflow

    expected = reference_validator(case["stages"])
    stages = build_stages(case)
    try:
        wf = Workflow.create(application="v", name="g", stages=stages)
        got = None
    except (InvalidStageGraphError, CircularDependencyError) as e:
        got = type(e).__name__
    except BaseException as e:  # noqa: BLE001 - any other exception type is itself the violation
        return (f"graph:create-raises-{type(e).__name__}", f"Workflow.create raised {type(e).__name__}: {e}")
    if expected is None and got is not None:
        return ("graph:valid-rejected", f"valid graph rejected with {got}")
    if expected is not None and got is None:
        return (f"graph:invalid-accepted:{expected}", f"graph with defect '{expected}' was accepted")
    if expected is None:
        top = [s for s in wf.stages if s.parent_stage_id is None]
        try:
            order = topological_sort(wf.stages)
        except BaseException as e:  # noqa: BLE001
            return (f"graph:toposort-raises-{type(e).__name__}", f"topological_sort raised on a valid graph: {e}")
        if sorted(id(s) for s in order) != sorted(id(s) for s in top):
            return ("graph:toposort-not-permutation", f"order has {len(order)} entries for {len(top)} top-level stages")
        pos = {s.ref_id: i for i, s in enumerate(order)}
        for s in order:
            for r in s.requisite_stage_ref_ids:
                if pos[r] >= pos[s.ref_id]:
                    return ("graph:toposort-order", f"stage {s.ref_id!r} listed before its requisite {r!r}")
    return None


# --------------------------------------------------------------------------- expressions

NAMES = ["x", "y", "d", "lst", "s", "n", "flag", "missing", "fn", "true", "false", "null", "None", "True", "none", "nested"]
CMP = ["==", "!=", "<", "<=", ">", ">=", "in", "not in", "is", "is not"]


def _const():
    return st.one_of(
        st.integers(-5, 5).map(repr),
        st.sampled_from(["0", "1", "1.5", "-2.0", "1e3", "10**2", "'a'", "'b'", "''", "\"q\"", "None", "True", "False",
                         "b'x'", "...", "1j", "0x10", "'é'"]),
    )


def _name():
    return st.sampled_from(NAMES)


def expr_strategy(max_leaves: int = 12):
    # indexing around both ends of (possibly empty) sequences and missing keys: cheap to state, rare under the recursive grammar
    edge_index = st.builds(lambda base, k: f"{base}[{k}]",
                           st.sampled_from(["lst", "x", "y", "s", "d", "nested['k']", "nested['a']['b']['k']", "[1, 2]", "(1, 2)", "[]", "'ab'", "lst[0]"]),
                           st.one_of(st.integers(-7, 7).map(repr), st.sampled_from(["'a'", "'zz'", "None", "True", "1.0", "-1.0", "n", "-n", "x"])))
    # membership tests against bytes / str / sequences with operands of the wrong kind or range
    edge_member = st.builds(lambda k, op, box: f"({k}) {op} ({box})", st.one_of(st.sampled_from(["-3", "300", "256", "255", "1.5", "None", "'a'", "b'x'", "x", "n"])),
                            st.sampled_from(["in", "not in"]), st.sampled_from(["b'x'", "'abc'", "lst", "d", "x", "(1, 2)", "n", "None"]))
    atom = st.one_of(_const(), _name(), _name(), edge_index, edge_member)

    def extend(e):
        attr = st.sampled_from(["a", "b", "k", "__class__", "__dict__", "keys", "x", "append"])
        return st.one_of(
            st.builds(lambda a, b: f"{a}.{b}", e, attr),
            st.builds(lambda a, b: f"({a})[{b}]", e, e),
            st.builds(lambda a, b: f"({a})[{b}]", e, _const()),
            st.builds(lambda a, b, c: f"({a})[{b}:{c}]", e, _const(), _const()),
            st.builds(lambda a, op, b: f"({a}) {op} ({b})", e, st.sampled_from(CMP), e),
            st.builds(lambda a, o1, b, o2, c: f"({a}) {o1} ({b}) {o2} ({c})", e, st.sampled_from(CMP), e, st.sampled_from(CMP), e),
            st.builds(lambda a, op, b: f"({a}) {op} ({b})", e, st.sampled_from(["and", "or"]), e),
            st.builds(lambda a: f"not ({a})", e),
            st.builds(lambda a: f"-({a})", e),
            st.builds(lambda a: f"-{a}", e),
            st.builds(lambda a: f"+({a})", e),
            st.builds(lambda a: f"~({a})", e),
            st.builds(lambda a, b, c: f"({a}) if ({b}) else ({c})", e, e, e),
            st.builds(lambda xs: "[" + ", ".join(xs) + "]", st.lists(e, max_size=3)),
            st.builds(lambda xs: "(" + ", ".join(xs) + ",)", st.lists(e, max_size=3)),
            # unsupported constructs
            st.builds(lambda a, b: f"{a}({b})", e, e),
            st.builds(lambda a: f"fn({a})", e),
            st.builds(lambda a: f"(lambda: {a})", e),
            st.builds(lambda a: f"(lambda: {a})()", e),
            st.builds(lambda a, op, b: f"({a}) {op} ({b})", e, st.sampled_from(["+", "-", "*", "/", "%", "**", "|", "&", "<<", "@", "//"]), e),
            st.builds(lambda a, b: f"[{a} for _ in {b}]", e, e),
            st.builds(lambda a, b: f"{{{a}: {b}}}", e, e),
            st.builds(lambda a: f"{{{a}}}", e),
            st.builds(lambda a: f"(z := {a})", e),
            st.builds(lambda a: "f'{" + a.replace("'", '"') + "}'", e),
            st.builds(lambda a: f"[*{a}]", e),
            st.builds(lambda a: f"(yield {a})", e),
            st.builds(lambda a: f"(await {a})", e),
            st.builds(lambda a: f"__import__('os').system({a})", e),
        )

    return st.recursive(atom, extend, max_leaves=max_leaves)


class _Sentinel:
    """Callable that records being called; evaluating an expression must never invoke it."""

    def __init__(self) -> None:
        self.calls = 0

    def __call__(self, *a: Any, **k: Any) -> Any:
        self.calls += 1
        return True


_json_leaf = st.one_of(st.none(), st.booleans(), st.integers(-3, 3), st.floats(allow_nan=False, allow_infinity=False, width=16),
                       st.sampled_from(["", "a", "b", "é", "x"]))
_json = st.recursive(_json_leaf, lambda c: st.one_of(st.lists(c, max_size=3),
                                                     st.dictionaries(st.sampled_from(["a", "b", "k", "x"]), c, max_size=3)),
                     max_leaves=8)


@st.composite
def ctx_strategy(draw) -> dict[str, Any]:
    ctx: dict[str, Any] = {}
    for k in ["x", "y", "s", "n", "flag"]:
        if draw(st.booleans()):
            ctx[k] = draw(_json)
    if draw(st.booleans()):
        ctx["d"] = draw(st.dictionaries(st.sampled_from(["a", "b", "k", "x"]), _json, max_size=3))
    if draw(st.booleans()):
        ctx["lst"] = draw(st.lists(_json, max_size=4))
    if draw(st.booleans()):
        ctx["nested"] = {"a": {"b": {"k": draw(_json)}}, "k": draw(st.lists(_json, max_size=2))}
    return ctx


def _ctx_snapshot(ctx: dict[str, Any]) -> str:
    return json.dumps(ctx, sort_keys=True, default=lambda o: f"<{type(o).__name__}>")


def eval_case(expr: str, ctx_json: dict[str, Any], with_sentinel: bool = True) -> tuple[str, str] | None:
    """Totality/no-side-effect oracle. Returns (bucket, detail) on violation."""
    from stabilize.expressions import ExpressionError, evaluate_expression

    ctx = copy.deepcopy(ctx_json)
    sent = _Sentinel()
    if with_sentinel:
        ctx["fn"] = sent
        if isinstance(ctx.get("d"), dict):
            ctx["d"]["fn"] = sent
    before = _ctx_snapshot(ctx)
    try:
        evaluate_expression(expr, ctx)
    except ExpressionError:
        pass
    except BaseException as e:  # noqa: BLE001 - the property: nothing but ExpressionError may escape
        tb = e.__traceback__
        where = "?"
        while tb is not None:
            fn = tb.tb_frame.f_code.co_filename
            if fn.endswith("expressions.py"):
                where = f"{tb.tb_frame.f_code.co_name}"
                node = tb.tb_frame.f_locals.get("node")
                if node is not None:
                    where += ":" + type(node).__name__
            tb = tb.tb_next
        if isinstance(e, RecursionError):
            where = "deep-nesting"  # one root cause whatever node type the recursion happened to die in
        return (f"expr:raises-{type(e).__name__}@{where}", f"{type(e).__name__}: {str(e)[:120]}")
    if sent.calls:
        return ("expr:callable-invoked", f"context callable invoked {sent.calls}x")
    if _ctx_snapshot(ctx) != before:
        return ("expr:context-mutated", "context changed during evaluation")
    return None


SAFE_NODES = (ast.Expression, ast.Constant, ast.Name, ast.Load, ast.Compare, ast.BoolOp, ast.And, ast.Or, ast.UnaryOp,
              ast.Not, ast.IfExp, ast.List, ast.Tuple, ast.Eq, ast.NotEq, ast.Lt, ast.LtE, ast.Gt, ast.GtE, ast.In,
              ast.NotIn)


def differential_case(expr: str, ctx_json: dict[str, Any]) -> tuple[str, str] | None | str:
    """Truthiness differential vs Python eval on the sub-language where both are defined.
    Returns "skip" when outside that sub-language."""
    from stabilize.expressions import ExpressionError, evaluate_expression

    if expr.strip().lower() in ("true", "false", "0", "1"):
        return "skip"  # documented literal fast path
    try:
        tree = ast.parse(expr.strip(), mode="eval")
    except (SyntaxError, RecursionError, ValueError, MemoryError):
        return "skip"
    for node in ast.walk(tree):
        if not isinstance(node, SAFE_NODES):
            return "skip"
        if isinstance(node, ast.Name) and node.id not in ctx_json and node.id not in ("true", "false", "null", "none", "True", "False", "None"):
            return "skip"  # missing names are None for the engine, NameError for Python
        if isinstance(node, ast.Constant) and isinstance(node.value, (bytes, complex, type(Ellipsis))):
            return "skip"
    ns = dict(copy.deepcopy(ctx_json))
    ns.update({"true": True, "false": False, "null": None, "none": None})
    try:
        want = eval(compile(tree, "<expr>", "eval"), {"__builtins__": {}}, ns)  # noqa: S307 - generated, whitelisted AST only
    except BaseException:  # noqa: BLE001
        return "skip"  # Python rejects it (e.g. ordering str/int); the engine may raise ExpressionError
    try:
        got = evaluate_expression(expr, copy.deepcopy(ctx_json))
    except ExpressionError:
        return "skip"  # engine evaluates both operands of and/or eagerly; an error there is allowed by the statement
    except BaseException:  # noqa: BLE001
        return "skip"  # reported by eval_case
    if bool(got) != bool(want):
        return ("expr:wrong-truth-value", f"engine={got!r} python={want!r}")
    return None


def _ast_nodes(expr: str) -> int:
    try:
        return sum(1 for _ in ast.walk(ast.parse(expr.strip(), mode="eval")))
    except BaseException:  # noqa: BLE001
        return 0


# --------------------------------------------------------------------------- engine-level sub-check
# "a malformed condition can skip a branch but cannot crash a stage": feed generated expressions to the two
# callers (stageEnabled on StartStage, split condition on CompleteStage) through the real handlers.

def caller_case(expr: str, ctx_json: dict[str, Any]) -> tuple[str, str] | None:
    from stabilize.handlers.complete_stage.split_logic import CompleteStagesSplitMixin
    from stabilize.handlers.start_stage.conditions import StartStageConditionsMixin
    from stabilize.models.stage import SplitType, StageExecution

    class _H(StartStageConditionsMixin, CompleteStagesSplitMixin):
        repository = None  # type: ignore[assignment]
        queue = None  # type: ignore[assignment]

    h = _H()
    ctx = copy.deepcopy(ctx_json)
    ctx["stageEnabled"] = {"type": "expression", "expression": expr}
    s = StageExecution.create(type="t", name="s", ref_id="s", context=ctx)
    from stabilize.models.workflow import Workflow

    other = StageExecution.create(type="t", name="o", ref_id="o", context={})
    other.outputs = copy.deepcopy(ctx_json)
    _wf = Workflow.create(application="v", name="w", stages=[s, other])  # handlers always see an attached stage
    try:
        r = h._should_skip(s)
        if not isinstance(r, bool):
            return ("caller:should_skip-nonbool", f"_should_skip returned {r!r}")
    except BaseException as e:  # noqa: BLE001
        return (f"caller:should_skip-raises-{type(e).__name__}", f"{type(e).__name__}: {str(e)[:120]}")
    up = StageExecution.create(type="t", name="u", ref_id="u", context=copy.deepcopy(ctx_json))
    up.split_type = SplitType.OR
    up.split_conditions = {"a": expr, "b": "true"}
    da = StageExecution.create(type="t", name="a", ref_id="a", requisite_stage_ref_ids={"u"})
    db = StageExecution.create(type="t", name="b", ref_id="b", requisite_stage_ref_ids={"u"})
    try:
        act, skip = h._apply_split_logic(up, [da, db])
        if {x.ref_id for x in act} | {x.ref_id for x in skip} != {"a", "b"} or not act:
            return ("caller:split-partition", f"activated={[x.ref_id for x in act]} skipped={[x.ref_id for x in skip]}")
    except BaseException as e:  # noqa: BLE001
        return (f"caller:split-raises-{type(e).__name__}", f"{type(e).__name__}: {str(e)[:120]}")
    return None


# --------------------------------------------------------------------------- shards

def _settings(n: int):
    return settings(max_examples=n, database=None, deadline=None, derandomize=False,
                    suppress_health_check=list(HealthCheck), phases=[Phase.generate], report_multiple_bugs=False)


def shard_graphs(prop: str, tier: str, seed: int, n: int) -> dict[str, Any]:
    c = Campaign(prop, tier, seed, LEVEL)

    @hseed(seed)
    @_settings(n)
    @given(graph_case())
    def t(case):
        v = check_graph(case)
        top = [s for s in case["stages"] if not s["synthetic"]]
        exp = reference_validator(case["stages"])
        nontrivial = bool(case["defects"]) or len(top) >= 4
        c.case(("g", case), nontrivial, ["graph", f"graph:{'valid' if exp is None else 'invalid-' + exp}"]
               + [f"graph:inj-{d}" for d in case["defects"]], sample={"graph": case} if nontrivial else None)
        if v:
            c.violation(v[0], {"kind": "graph", "case": case}, v[1])

    t()
    return c.export()


def shard_exprs(prop: str, tier: str, seed: int, n: int) -> dict[str, Any]:
    c = Campaign(prop, tier, seed, LEVEL)

    @hseed(seed)
    @_settings(n)
    @given(expr_strategy(), ctx_strategy())
    def t(expr, ctx):
        nodes = _ast_nodes(expr)
        nontrivial = nodes >= 3
        cls = ["expr", "expr:parses" if nodes else "expr:syntax-error"]
        v = eval_case(expr, ctx)
        if v:
            c.violation(v[0], {"kind": "expr", "expr": expr, "ctx": ctx}, v[1])
        d = differential_case(expr, ctx)
        if d == "skip":
            cls.append("expr:diff-skipped")
        else:
            cls.append("expr:diff-compared")
            if d:
                # counted, not judged: C20 promises "returns a value or raises the evaluator's own error", not Python's value
                # (the evaluator's and / or return booleans - all() / any() - so e.g. (3 and 3) != 1 differs from Python)
                cls.append("expr:diff-differs-from-python")
        w = caller_case(expr, ctx)
        if w:
            c.violation(w[0], {"kind": "caller", "expr": expr, "ctx": ctx}, w[1])
        c.case(("e", expr, ctx), nontrivial, cls, sample={"expr": expr, "ctx": ctx} if nontrivial else None)

    t()

    # raw text and deep nesting (small fixed share of the budget)
    @hseed(seed + 7)
    @_settings(max(20, n // 5))
    @given(st.text(alphabet=st.characters(codec="utf-8"), max_size=40) | st.text(alphabet="xyd.[]()'\" <>=!-+notandir01,:", max_size=30),
           ctx_strategy())
    def t2(expr, ctx):
        v = eval_case(expr, ctx)
        if v:
            c.violation(v[0], {"kind": "expr", "expr": expr, "ctx": ctx}, v[1])
        c.case(("t", expr, ctx), _ast_nodes(expr) >= 3, ["expr-text"])

    t2()
    rnd = random.Random(seed)
    depths = [10, 100, 400, 900, 1500, 3000, 5000, 8000, 12000, 20000, 60000]
    forms = [lambda k: "not " * k + "x", lambda k: "-" * k + "n", lambda k: "x" + "[0]" * k, lambda k: "x" + ".a" * k,
             lambda k: "(" * k + "x" + ")" * k, lambda k: "[" * k + "]" * k, lambda k: " and ".join(["x"] * k),
             lambda k: " < ".join(["n"] * k), lambda k: "x if y else " * k + "n"]
    for k in depths:
        for fi, f in enumerate(forms):
            expr = f(k + rnd.randint(0, 3))
            v = eval_case(expr, {"x": [[1]], "n": 1, "y": 0})
            c.case(("deep", fi, k), True, ["expr-deep"])
            if v:
                c.violation(v[0], {"kind": "expr", "expr_form": fi, "depth": k, "expr": expr if len(expr) < 200 else None,
                                   "ctx": {"x": [[1]], "n": 1, "y": 0}}, v[1])
    return c.export()


# --------------------------------------------------------------------------- atheris

FUZZ_DRIVER = r'''
import sys, os, json
import atheris
with atheris.instrument_imports(include=["stabilize.expressions"]):
    import stabilize.expressions as E
sys.path.insert(0, os.environ["VERIF_HOME"])
from checks.c20 import eval_case
out = sys.argv.pop(1)
stats = {"execs": 0, "parsed": 0, "buckets": {}}
def flush():
    with open(out, "w") as f: json.dump(stats, f)
def target(data):
    fdp = atheris.FuzzedDataProvider(data)
    nctx = fdp.ConsumeIntInRange(0, 3)
    ctx = {}
    for i in range(nctx):
        k = fdp.PickValueInList(["x", "y", "d", "lst", "n", "s"])
        kind = fdp.ConsumeIntInRange(0, 5)
        ctx[k] = [None, fdp.ConsumeIntInRange(-3, 3), fdp.ConsumeUnicodeNoSurrogates(4), [1, "a", [2]], {"a": 1, "k": {"b": 2}}, True][kind]
    expr = fdp.ConsumeUnicodeNoSurrogates(fdp.remaining_bytes())
    stats["execs"] += 1
    v = eval_case(expr, ctx)
    if v is not None:
        b = stats["buckets"].setdefault(v[0], {"count": 0, "expr": expr, "ctx": ctx, "detail": v[1]})
        b["count"] += 1
        if len(expr) < len(b["expr"]): b.update(expr=expr, ctx=ctx, detail=v[1])
        if b["count"] == 1: flush()
    if stats["execs"] % 20000 == 0: flush()
atheris.Setup(sys.argv, target)
try:
    atheris.Fuzz()
finally:
    flush()
'''


def run_atheris(c: Campaign, runs: int, seed: int) -> None:
    home = os.environ["VERIF_HOME"]
    try:
        sys.path.insert(0, os.path.join(home, ".deps"))
        import atheris  # noqa: F401
    except Exception as e:  # noqa: BLE001
        c.extra["atheris"] = f"skipped: atheris not importable ({type(e).__name__})"
        return
    scratch = tempfile.mkdtemp(prefix="c20fuzz-")
    try:
        total = {"execs": 0, "campaigns": []}
        for corpus_kind in ("empty", "seeded"):
            cdir = os.path.join(scratch, corpus_kind)
            os.makedirs(cdir)
            if corpus_kind == "seeded":
                for i, s in enumerate(["x == 1", "a.b.c", "d['k'] in lst", "not x and (y or z)", "1 if x else 2", "-n < 3 <= y",
                                       "status == 'ok' and count >= 3", "[1, 2][0]", "x is not None"]):
                    with open(os.path.join(cdir, f"s{i}"), "wb") as f:
                        f.write(b"\x00" + s.encode())
            drv = os.path.join(scratch, "drv.py")
            with open(drv, "w") as f:
                f.write(FUZZ_DRIVER)
            out = os.path.join(scratch, f"stats-{corpus_kind}.json")
            env = dict(os.environ)
            p = subprocess.run([sys.executable, drv, out, f"-runs={runs}", f"-seed={seed + (1 if corpus_kind == 'seeded' else 0) or 1}",
                                "-max_len=96", f"-artifact_prefix={scratch}/", "-print_final_stats=0", cdir],
                               env=env, capture_output=True, text=True, timeout=900)
            st_ = {"execs": 0, "buckets": {}}
            if os.path.exists(out):
                with open(out) as f:
                    st_ = json.load(f)
            # libFuzzer prints "Done N runs"; prefer it for the count (the stats file is flushed every 20k execs)
            done = runs
            for line in (p.stderr or "").splitlines():
                if line.startswith("Done ") and " runs" in line:
                    try:
                        done = int(line.split()[1])
                    except ValueError:
                        pass
            if p.returncode not in (0,):
                c.extra.setdefault("atheris_notes", []).append(f"{corpus_kind}: driver exit {p.returncode}: {(p.stderr or '')[-200:]}")
                done = st_.get("execs", 0)
            total["execs"] += done
            total["campaigns"].append({"corpus": corpus_kind, "runs": done, "buckets": {k: v["count"] for k, v in st_["buckets"].items()}})
            for b, v in st_["buckets"].items():
                c.violation(b, {"kind": "expr", "expr": v["expr"], "ctx": v["ctx"], "via": "atheris"}, v["detail"])
                c.buckets[b]["count"] += v["count"] - 1
        c.evaluations += total["execs"]
        c.count("atheris-execs", total["execs"])
        c.extra["atheris"] = total
    finally:
        shutil.rmtree(scratch, ignore_errors=True)


# --------------------------------------------------------------------------- entry points

def run(c: Campaign, jobs: int) -> None:
    quick = c.tier == "quick"
    n_graph = 4000 if quick else 60000
    n_expr = 4000 if quick else 60000
    shards = max(1, jobs)
    args = []
    for k in range(shards):
        args.append((shard_graphs, (c.prop, c.tier, c.seed * 1000 + k, max(1, n_graph // shards))))
        args.append((shard_exprs, (c.prop, c.tier, c.seed * 1000 + 500 + k, max(1, n_expr // shards))))
    run_shards(c, _dispatch, args, jobs)
    run_atheris(c, 150000 if quick else 3000000, c.seed)
    # regression corpus: saved shrunk failures (replays/) and the design-time inputs
    for expr, ctx in [("-x", {"x": "a"}), ("-missing", {}), ("d[[1]]", {"d": {}}), ("d[lst]", {"d": {}, "lst": [1]}),
                      ("not " * 3000 + "x", {})]:
        v = eval_case(expr, ctx)
        c.case(("reg", expr[:20], len(expr)), True, ["expr-regression"])
        if v:
            c.violation(v[0], {"kind": "expr", "expr": expr if len(expr) < 200 else None, "expr_len": len(expr), "ctx": ctx}, v[1])
    c.rule = ("graphs: Hypothesis-built stage lists (valid DAG by construction, then 0-3 injected defects: duplicate ref, "
              "self edge, unknown ref, 2-5 cycle, synthetic children); expressions: recursive grammar over supported and "
              "unsupported constructs x generated JSON contexts with a sentinel callable, raw text, 63 deep-nesting forms, "
              "atheris bytes (empty + seeded corpus). Non-trivial = graph with >=1 injected defect or >=4 top-level stages; "
              "expression that parses with >=3 AST nodes. Distinct = canonical hash of the structured case.")
    c.assumptions += [
        "contexts are JSON-representable values plus one callable sentinel (stage.context is loaded from JSON in the engine)",
        "the truthiness differential against Python's eval is counted (class expr:diff-differs-from-python), not judged: the statement does not promise Python's values",
        "atheris counts come from libFuzzer's 'Done N runs' line; its campaign is only approximately reproducible from the seed",
    ]
    for cls in ("graph:valid", "graph:invalid-dup", "graph:invalid-self", "graph:invalid-unknown", "graph:invalid-cycle",
                "expr:parses", "expr:diff-compared"):
        if c.classes.get(cls, 0) == 0:
            c.harness_error(f"generator starvation: class {cls} never produced")
    _shrink_unknown(c)


def _dispatch(fn, a):
    return fn(*a)


def _shrink_unknown(c: Campaign) -> None:
    """Minimise expression witnesses with Hypothesis' shrinker (predicate: same bucket)."""
    from vlib.campaign import load_known, match_known

    known = load_known()
    for bucket, b in c.buckets.items():
        if match_known(c.prop, bucket, known) or not bucket.startswith("expr:raises"):
            continue
        try:
            if "RecursionError" in bucket:
                continue
            expr, ctx = find(st.tuples(expr_strategy(6), ctx_strategy()),
                             lambda ec: (eval_case(ec[0], ec[1]) or ("",))[0] == bucket,
                             settings=settings(max_examples=800, database=None, deadline=None,
                                               suppress_health_check=list(HealthCheck)),
                             random=random.Random(c.seed))
            if len(expr) < len(b["case"].get("expr") or "x" * 10**6):
                b["case"] = {"kind": "expr", "expr": expr, "ctx": ctx, "shrunk_by": "hypothesis.find"}
        except (NoSuchExample, Exception):  # noqa: BLE001 - keep the unshrunk witness
            pass


def replay(c: Campaign, rec: dict[str, Any]) -> int:
    case = rec["case"]
    if case["kind"] == "graph":
        v = check_graph(case["case"])
    elif case["kind"] == "expr-diff":
        v = differential_case(case["expr"], case["ctx"])
        v = None if v == "skip" else v
    elif case["kind"] == "caller":
        v = caller_case(case["expr"], case["ctx"])
    else:
        expr = case.get("expr")
        if expr is None and "expr_form" in case:
            print("replay needs the expression text; deep forms are regenerated by the campaign")
            return 2
        v = eval_case(expr, case["ctx"])
    if v:
        print(f"VIOLATION property={c.prop} replay={os.environ.get('VERIF_REPLAY_PATH', 'given')}")
        print(f"  bucket: {v[0]}\n  detail: {v[1]}")
        return 1
    print(f"replay: no violation ({rec.get('bucket')})")
    return 0
