"""C02 - redelivery and reordering never change the result or repeat finished work.

Domain: spec (core corpus + generated DAGs + loops + early-firing joins) x delivery schedule
(uniform / sparse / lossy-FIFO / hold-back bias; up to R lost acks per row), plus a bounded-
exhaustive DFS over the first d decisions on tiny specs.
Oracle: outcome signature equals the FIFO exactly-once run of the same engine (equality on
confluent specs, validity predicate on racy ones); per stage #NOT_STARTED->RUNNING <= 1 + #re-arms;
execution counts per task equal the reference (no execution after a recorded result).
"""

from __future__ import annotations

import os
from typing import Any

from hypothesis import HealthCheck, Phase, given, seed as hseed, settings, strategies as st

from vlib import oracles, tasks
from vlib.campaign import Campaign, chash
from vlib.engine_d import Run
from vlib.par import run_shards
from vlib.sched import explore_exhaustive, make_schedule, reference_outcome, schedule_desc
from vlib.spec import core_corpus, dag_spec, features, loop_spec, stage, ok, syn_confluent_spec

LEVEL = "exploration"
SKIP_CORPUS = ()


def judge(c: Campaign, prop: str, spec: dict[str, Any], run: Run, sched_desc: Any, nontrivial: bool, extra_classes=()) -> None:
    # everything that reads this run's world comes first: the reference run replaces the (process-global) engine state
    got = run.outcome()
    audit = run.w.audit()
    stuck = oracles.diagnose_stuck(run)
    ref = reference_outcome(spec)
    kind = oracles.classify(spec)
    viol = oracles.compare_outcome(spec, ref, got)
    for sid, (starts, rearms) in oracles.stage_starts(audit).items():
        if starts > 1 + rearms:
            viol.append(("stage-started-twice", f"stage {sid}: {starts} starts with {rearms} re-arms"))
    if run.step_bound_hit:
        viol.append(("no-quiescence", f"still deliverable messages after {run.steps} deliveries"))
    diag = ""
    if got["workflow"] not in oracles.COMPLETE and ref["workflow"] in oracles.COMPLETE:
        diag = stuck
    case = {"spec": spec, "schedule": sched_desc}
    if diag and viol:
        # a wedged workflow shows up in every clause at once; it is one root cause, named by the shape of the stuck state
        c.violation(f"stuck|{diag}", case, "; ".join(d for _c, d in viol)[:500] + f" [stuck: {diag}]",
                    sig={"clauses": [cl for cl, _d in viol], "kind": kind, "diag": diag, "features": features(spec)})
        viol = []
    for clause, detail in viol:
        c.violation(f"{clause}|{kind}", case, detail, sig={"clause": clause, "kind": kind, "features": features(spec)})
    cls = [f"kind:{kind}"] + [f"feat:{f}" for f in features(spec)] + list(extra_classes)
    if run.handler_errors:
        cls.append("handler-exception-seen")
    c.case(("c02", spec, sched_desc), nontrivial, cls,
           sample={"spec": spec["name"], "schedule": sched_desc, "outcome": {"workflow": got["workflow"], "stages": got["stages"]},
                   "deliveries": run.steps} if nontrivial else None)


def _nontrivial(run: Run) -> bool:
    """>=1 out-of-FIFO choice, or a redelivery that reached a handler (not only the duplicate filter)."""
    if run.schedule.out_of_order:
        return True
    seen: dict[str, int] = {}
    for mid, _t in run.w.handler_calls:
        seen[mid] = seen.get(mid, 0) + 1
    return any(v > 1 for v in seen.values())


def spec_strategy():
    corpus = [v for k, v in core_corpus().items() if k not in SKIP_CORPUS]
    return st.one_of(
        st.sampled_from(corpus),
        dag_spec(max_stages=6),
        dag_spec(max_stages=6, allow=("multi", "fail", "stop", "poll", "disabled")),
        dag_spec(max_stages=5, allow=("multi", "poll"), joins=("AND", "DISC", "NOFM")),
        loop_spec(),
        syn_confluent_spec(),
    )


def shard_random(prop: str, tier: str, seed: int, n: int) -> dict[str, Any]:
    c = Campaign(prop, tier, seed, LEVEL)

    @hseed(seed)
    @settings(max_examples=n, database=None, deadline=None, derandomize=False, suppress_health_check=list(HealthCheck),
              phases=[Phase.generate], report_multiple_bugs=False)
    @given(spec_strategy(), schedule_desc())
    def t(spec, sd):
        run = Run(spec, make_schedule(sd)).drain()
        judge(c, prop, spec, run, sd, _nontrivial(run), [f"style:{sd['style']}"])

    t()
    return c.export()


TINY = {
    "t_chain2": {"name": "t_chain2", "stages": [stage("a", [], [ok()]), stage("b", ["a"], [ok()])]},
    "t_fork": {"name": "t_fork", "stages": [stage("a", [], [ok()]), stage("b", [], [ok()]), stage("c", ["a", "b"], [ok()])]},
    "t_two_tasks": {"name": "t_two_tasks", "stages": [stage("a", [], [ok(), ok()])]},
    "t_selfloop": {"name": "t_selfloop", "stages": [stage("a", [], [{"b": "jump", "to": "a", "j": 1}])]},
    # the jumping task is followed by another task of its stage: the REDIRECT completion and the jump are queued together
    "t_jump_then_task": {"name": "t_jump_then_task", "stages": [stage("a", [], [{"b": "jump", "to": "a", "j": 1}, ok()])]},
    "t_fail": {"name": "t_fail", "stages": [stage("a", [], [{"b": "fail"}]), stage("b", ["a"], [ok()])]},
    "t_skip": {"name": "t_skip", "stages": [stage("a", [], [ok()]), stage("b", ["a"], [ok()], enabled=False)]},
}


def shard_exhaustive(prop: str, tier: str, seed: int, name: str, depth: int, offset: int,
                     roots: list[list[int]] | None = None, expand: bool = True) -> dict[str, Any]:
    """DFS over the decisions [offset, offset+depth) of a tiny spec (FIFO before and after)."""
    c = Campaign(prop, tier, seed, LEVEL)
    spec = TINY[name]

    def visit(run: Run, prefix: list[int]) -> None:
        judge(c, prop, spec, run, {"style": "exhaustive", "d": [0] * offset + prefix, "R": 2}, _nontrivial(run) or bool(prefix),
              ["style:exhaustive"])

    n, children = explore_exhaustive(spec, depth, visit, roots=roots, expand=expand, offset=offset)
    c.extra[f"exhaustive:{name}@{offset}+{depth}"] = n
    out = c.export()
    out["children"] = children
    return out


def _dispatch(fn, a):  # noqa: ANN001
    return fn(*a)


def run(c: Campaign, jobs: int) -> None:
    quick = c.tier == "quick"
    n_random = 2400 if quick else 60000
    depth = 5 if quick else 6
    args = []
    shards = max(1, jobs)
    for k in range(shards):
        args.append((shard_random, (c.prop, c.tier, c.seed * 1000 + k, max(1, n_random // shards))))
    # bounded-exhaustive part: level 1+2 of each DFS tree in a pre-pass, then the sub-trees spread over the pool
    from vlib.par import map_raw

    # t_jump_then_task: the jump and the REDIRECT completion are queued by the 4th delivery, so the window starts there
    windows = [(name, off) for name in TINY for off in ((0, 4) if name == "t_jump_then_task" and quick else (0, 5) if quick else (0, 4, 8))]
    depths = {name: (depth if quick else (5 if name == "t_fork" else 6)) for name in TINY}  # t_fork's tree grows fastest (two initial stages)
    lvl1 = map_raw(_dispatch, [(shard_exhaustive, (c.prop, c.tier, c.seed, n_, depths[n_], o_, None, False)) for n_, o_ in windows], jobs)
    lvl2_args = []
    for (n_, o_), r in zip(windows, lvl1):
        kids = r.pop("children", [])
        c.merge(r)
        for kid in kids:
            lvl2_args.append((shard_exhaustive, (c.prop, c.tier, c.seed, n_, depths[n_], o_, [kid], False)))
    lvl2 = map_raw(_dispatch, lvl2_args, jobs)
    for a, r in zip(lvl2_args, lvl2):
        kids = r.pop("children", [])
        c.merge(r)
        for i in range(0, len(kids), 4):
            args.append((shard_exhaustive, (c.prop, c.tier, c.seed, a[1][3], depths[a[1][3]], a[1][5], kids[i:i + 4], True)))
    run_shards(c, _dispatch, args, jobs)
    for name, off in windows:
        tot = sum(v for k, v in c.extra.items() if k == f"exhaustive:{name}@{off}+{depths[name]}")
        c.exhaustive_parts.append(f"{name}: every (pending row x ack/lose) choice for deliveries {off}..{off + depths[name] - 1}, FIFO elsewhere: {tot} schedules")
    c.rule = ("case = (workflow spec, delivery schedule). Specs: 23-entry core corpus, Hypothesis DAGs (<=6 stages; multi-task, "
              "terminal failure, continue-on-failure, polling, transient, skip), first-of/quorum joins, jump loops. Schedules: list of "
              "(row choice, lose-ack) decisions in four styles incl. a hold-back bias on one message type; R<=3 lost acks per row; "
              "bounded-exhaustive DFS over a window of d decisions on 6 tiny specs. Non-trivial = >=1 out-of-FIFO choice or a "
              "redelivery whose handler actually ran twice. Distinct = hash of (spec, schedule).")
    c.assumptions += [
        "single worker thread: reordering and redelivery only (interleavings are C04/C07/C11)",
        "fairness rule: a self re-queuing wait message (retry_count>5) is not chosen while any other message is pending; STABILIZE_MAX_STAGE_WAIT_RETRIES=24",
        "reference = FIFO exactly-once run of the same engine; racy specs (halting failure beside unfinished siblings, early-firing joins, deferred choice) use a validity predicate",
        "SQLite backend only",
    ]
    need = ["feat:jump", "feat:terminal-failure", "feat:continue-on-failure", "feat:poll", "feat:transient", "feat:multi-task",
            "kind:early-join", "style:hold", "style:exhaustive"]
    for cls in need:
        if c.classes.get(cls, 0) == 0:
            c.harness_error(f"generator starvation: class {cls} never produced")


def replay(c: Campaign, rec: dict[str, Any]) -> int:
    case = rec["case"]
    run_ = Run(case["spec"], make_schedule(case["schedule"])).drain()
    judge(c, c.prop, case["spec"], run_, case["schedule"], True)
    if c.buckets:
        for b, v in c.buckets.items():
            print(f"VIOLATION property={c.prop} replay=given\n  bucket: {b}\n  detail: {v['detail']}")
        return 1
    print("replay: no violation")
    return 0


def regress(c: Campaign, rec: dict[str, Any]) -> None:
    case = rec["case"]
    run_ = Run(case["spec"], make_schedule(case["schedule"])).drain()
    judge(c, c.prop, case["spec"], run_, case["schedule"], True, ["regression"])
