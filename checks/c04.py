"""C04 - a stage starts exactly once even when workers race.

Domain: scenarios in which several StartStage messages for one stage J are pending at once - J an AND /
first-of / quorum join whose 2-3 upstream branches have all just completed, an initial stage with duplicated
StartStage, and first-of / quorum joins whose remaining branch completes (CompleteStage) while J is being
started - handled by 2-3 workers whose execution is interleaved by the harness at the granularity of
individual SQL statements and commits: ALL schedules with at most P pre-emptions (bounded-exhaustive) plus
randomly drawn deeper ones; then a sequential drain.
Oracle: for J exactly one durable NOT_STARTED -> RUNNING; each task of J is executed exactly once; exactly one
StartTask is queued per first task of J; J's downstream stage receives exactly one start (one NOT_STARTED ->
RUNNING, its task executed once); the workflow ends SUCCEEDED with nothing stranded.
"""

from __future__ import annotations

import json
import random
from typing import Any

from vlib import oracles, tasks
from vlib.campaign import Campaign
from vlib.engine_d import Run, Schedule
from vlib.engine_i import Sched, explore, handle_one, run_schedule
from vlib.par import run_shards
from vlib.spec import ok, stage
from vlib.world import LONG_AGO, World

LEVEL = "exploration"


def scenarios() -> dict[str, dict[str, Any]]:
    def fork(k: int, **kw: Any) -> dict[str, Any]:
        st_ = [stage("a", [], [ok()])] + [stage(f"b{i}", ["a"], [ok()]) for i in range(k)]
        st_.append(stage("j", [f"b{i}" for i in range(k)], [ok(), ok()], **kw))
        st_.append(stage("z", ["j"], [ok()]))
        return {"name": "fork", "stages": st_}

    def built(spec: dict[str, Any]) -> dict[str, Any]:
        # tasks built by the stage builder at start time (nothing persisted before the plan commit): the zombie re-plan path
        for s_ in spec["stages"]:
            if s_["ref"] == "j":
                s_["built"] = True
        return spec

    return {
        "and2-built": {"spec": built(fork(2)), "hold": "StartStage:j", "workers": 2},
        "dup-initial-built": {"spec": built({"name": "dupb", "stages": [stage("j", [], [ok(), ok()]), stage("z", ["j"], [ok()])]}), "hold": "StartStage:j", "workers": 2, "dup": 1},
        # builder-built tasks AND a builder-created before-stage: the zombie take-over and the first claimer both plan children
        "and2-built-before": {"spec": built(fork(2, before=1)), "hold": "StartStage:j", "workers": 2},
        # a join without tasks of its own (a pure synchronisation point)
        "and2-notasks": {"spec": {"name": "forkn", "stages": [stage("a", [], [ok()]), stage("b0", ["a"], [ok()]), stage("b1", ["a"], [ok()]),
                                                             stage("j", ["b0", "b1"], []), stage("z", ["j"], [ok()])]}, "hold": "StartStage:j", "workers": 2},
        "and2": {"spec": fork(2), "hold": "StartStage:j", "workers": 2},
        "and3": {"spec": fork(3), "hold": "StartStage:j", "workers": 3},
        "disc2": {"spec": fork(2, join="DISC"), "hold": "StartStage:j", "workers": 2},
        "nofm3": {"spec": fork(3, join="NOFM", threshold=2), "hold": "StartStage:j", "workers": 3},
        "dup-initial": {"spec": {"name": "dup", "stages": [stage("j", [], [ok(), ok()]), stage("z", ["j"], [ok()])]}, "hold": "StartStage:j", "workers": 2, "dup": 1},
        # the late branch completes while the early-firing join is being started
        "disc-late": {"spec": fork(2, join="DISC"), "hold": "StartStage:j|CompleteStage:b1", "workers": 2, "need": ["StartStage:j", "CompleteStage:b1"]},
        "disc-late-startfirst": {"spec": fork(2, join="DISC"), "hold": "StartStage:j|CompleteStage:b1", "workers": 2, "first": "StartStage:j"},
        "nofm-late-startfirst": {"spec": fork(3, join="NOFM", threshold=2), "hold": "StartStage:j|CompleteStage:b2", "workers": 3, "first": "StartStage:j"},
        "nofm-late": {"spec": fork(3, join="NOFM", threshold=2), "hold": "StartStage:j|CompleteStage:b2", "workers": 3},
    }


def _key(row: dict[str, Any]) -> str:
    try:
        p = json.loads(row["payload"])
    except Exception:  # noqa: BLE001
        p = {}
    return f"{row['type']}:{(p.get('stage_id') or '').replace('W1-', '')}"


def prepare(sc: dict[str, Any]) -> dict[str, Any]:
    """Drive the spec FIFO but withhold the messages named in 'hold'; return the durable bytes of that state."""
    held = set(sc["hold"].split("|"))
    tasks.reset_ledger()
    run = Run(sc["spec"], Schedule())
    guard = 0
    while guard < 500:
        guard += 1
        rows = [r for r in run.eligible() if _key(r) not in held]
        if not rows:
            break
        run.deliver(rows[0])
    for _ in range(sc.get("dup", 0)):
        from stabilize.queue.messages import StartStage

        run.w.queue.push(StartStage(execution_type="PIPELINE", execution_id="W1", stage_id="W1-j"))
    pending = [_key(r) for r in run.w.pending()]
    return {"blob": run.w.snapshot(), "ledger": tasks.ledger_snapshot(), "pending": pending, "steps": run.steps, "first": sc.get("first")}


def make_world_factory(prep: dict[str, Any]):
    def make() -> World:
        tasks.reset_ledger()
        tasks.LEDGER.extend(dict(e) for e in prep["ledger"])
        w = World(restore=prep["blob"], share_connection=True)
        w._harness_sql("UPDATE queue_messages SET deliver_at = ?, locked_until = NULL", (LONG_AGO,))
        if prep.get("first"):
            # the queue promises no order between ready messages: this scenario has the named one polled first
            for rid, mt, payload in w.rows("SELECT id, message_type, payload FROM queue_messages"):
                if _key({"type": mt, "payload": payload}) == prep["first"]:
                    w._harness_sql("UPDATE queue_messages SET deliver_at = ? WHERE id = ?", ("1999-01-01T00:00:00+00:00", rid))
        w.set_ctx(prep["steps"] + 1, "concurrent")
        return w
    return make


def judge(c: Campaign, name: str, sc: dict[str, Any], w: World, s: Sched, pre: dict[int, int], extra=()) -> None:
    # Sequential drain of whatever is left: in FIFO order and, from the same post-race state, in one other order (the messages the
    # racing workers queued - a StartTask of the first plan, the late branch's StartStage - may be picked up by different workers
    # in either order).
    blob = w.snapshot()
    led0 = tasks.ledger_snapshot()
    ALT = ([2], [2, 2], [4], [2, 4])
    alt = list(ALT[(len(pre) + sum(pre.keys())) % len(ALT)])
    _assess(c, name, sc, w, s, pre, [], extra)
    if c.tier == "thorough" and "late" not in name and (len(pre) + sum(pre.keys())) % 4:
        return  # thorough: the second drain for every schedule of the late-branch scenarios and a quarter of the others (cost)
    tasks.reset_ledger()
    tasks.LEDGER.extend(dict(e) for e in led0)
    w2 = World(restore=blob, share_connection=True)
    _assess(c, name, sc, w2, s, pre, alt, None)


def _assess(c: Campaign, name: str, sc: dict[str, Any], w: World, s: Sched, pre: dict[int, int], drain: list[int], extra) -> None:  # noqa: ANN001
    run = Run(sc["spec"], Schedule(list(drain), 2), world=w)
    run.steps = 1000
    run.drain()
    got = run.outcome()
    audit = w.audit()
    qlog = w.qlog()
    case = {"scenario": name, "preemptions": {str(k): v for k, v in sorted(pre.items())}}
    if drain:
        case["drain"] = list(drain)
    starts = oracles.stage_starts(audit)
    viol: list[tuple[str, str]] = []
    for sid in ("W1-j", "W1-z"):
        n, rearm = starts.get(sid, (0, 0))
        if n != 1:
            viol.append((f"stage-started-{n}-times", f"{sid}: {n} durable NOT_STARTED->RUNNING transitions"))
    j_tasks = len([s_ for s_ in sc["spec"]["stages"] if s_["ref"] == "j"][0]["tasks"])
    for k in [f"j.t{i}" for i in range(j_tasks)] + ["z.t0"]:
        n = got["counts"].get(k, 0)
        if n != 1:
            viol.append((f"task-executed-{n}-times", f"{k} executed {n}x"))
    if not j_tasks:
        # a join without tasks completes at once: exactly one completion and exactly one start of what follows
        done = sum(1 for _q, _st, _w, kind, ident, old, new in audit if kind == "stage" and ident == "W1-j" and new == "SUCCEEDED" and old != new)
        if done != 1:
            viol.append((f"stage-completed-{done}-times", f"task-less join j: {done} durable transitions to SUCCEEDED"))
    first_task_inserts = sum(1 for _q, _st, _w, op, tbl, _rid, mt, p in qlog if op == "ins" and tbl == "q" and mt == "StartTask"
                             and json.loads(p).get("stage_id") == "W1-j" and str(json.loads(p).get("task_id", "")).endswith("-t0"))
    task_rows = w.scalar("SELECT COUNT(*) FROM task_executions WHERE stage_id = 'W1-j'")
    if task_rows != j_tasks:
        viol.append((f"stage-has-{task_rows}-task-rows", f"stage j was planned with {j_tasks} tasks but has {task_rows} task rows"))
    if first_task_inserts != (1 if j_tasks else 0):
        viol.append((f"starttask-queued-{first_task_inserts}-times", f"{first_task_inserts} StartTask messages queued for j's first task"))
    if got["workflow"] != "SUCCEEDED":
        viol.append(("workflow-not-succeeded", f"workflow {got['workflow']}; stages {got['stages']}; worker errors {s.errors[:2]}"))
    if got["queue"] or got["dlq"]:
        viol.append(("stranded-message", f"queue {got['queue']} DLQ {got['dlq']}"))
    if any(e.startswith("harness:") for e in s.errors):
        c.harness_error(f"{name}: {s.errors[:2]}")
    for clause, detail in viol:
        c.violation(f"{clause}|{name}", case, detail + (f" (post-race drain order {drain})" if drain else ""))
    if extra is None:
        c.classes["alt-drain"] = c.classes.get("alt-drain", 0) + 1
        return
    # non-trivial: two workers were inside the StartStage handler for j at the same time (both had read j before either claimed)
    in_handler: dict[int, bool] = {}
    overlap = False
    for _idx, tid, label, _r in s.trace:
        if "SELECT * FROM stage_exec" in label or "sql:SELECT" in label:
            in_handler[tid] = True
        if sum(1 for v in in_handler.values() if v) >= 2 and s.switches > 0:
            overlap = True
    c.case(("c04", name, sorted(pre.items())), overlap and bool(pre), [f"scenario:{name}", f"preemptions:{len(pre)}"] + list(extra),
           sample={"scenario": name, "preemptions": case["preemptions"], "yield_points": s.yields, "switches": s.switches,
                   "trace_head": [f"{t}:{lab}" for _i, t, lab, _r in s.trace[:10]]} if pre and len(c.samples) < 3 else None)


def programs_for(sc: dict[str, Any]):
    def f(w: World):
        return [handle_one() for _ in range(sc["workers"])]
    return f


def shard_exhaustive(prop: str, tier: str, seed: int, name: str, P: int, roots: list[dict[int, int]] | None, expand: bool) -> dict[str, Any]:
    c = Campaign(prop, tier, seed, LEVEL)
    sc = scenarios()[name]
    prep = prepare(sc)
    mk = make_world_factory(prep)
    children: list[dict[int, int]] = []

    def j(w: World, s: Sched, pre: dict[int, int]) -> None:
        judge(c, name, sc, w, s, pre, ["exhaustive"])
        if not expand and len(pre) < P:
            last = max(pre) if pre else -1
            for idx, cur, _l, runnable in s.trace:
                if idx > last:
                    for t in runnable:
                        if t != cur:
                            ch = dict(pre)
                            ch[idx] = t
                            children.append(ch)

    n = explore(mk, programs_for(sc), j, max_preemptions=P if expand else 0, roots=roots)
    c.extra[f"schedules:{name}"] = n
    out = c.export()
    out["children"] = [{str(k): v for k, v in ch.items()} for ch in children]
    out["pending"] = prep["pending"]
    return out


def shard_random(prop: str, tier: str, seed: int, name: str, n: int) -> dict[str, Any]:
    c = Campaign(prop, tier, seed, LEVEL)
    sc = scenarios()[name]
    prep = prepare(sc)
    mk = make_world_factory(prep)
    rnd = random.Random(seed)  # seeded from VERIF_SEED: the draw is a pure function of it
    # learn the number of yield points from the un-preempted run
    w, s = run_schedule(mk, programs_for(sc), {})
    total = max(5, s.yields)
    for _ in range(n):
        k = rnd.randint(3, 7)
        pre = {rnd.randrange(0, total): rnd.randrange(0, sc["workers"]) for _ in range(k)}
        w, s = run_schedule(mk, programs_for(sc), pre)
        judge(c, name, sc, w, s, pre, ["random-deep"])
    return c.export()


def _dispatch(fn, a):  # noqa: ANN001
    return fn(*a)


def run(c: Campaign, jobs: int) -> None:
    from vlib.par import map_raw

    quick = c.tier == "quick"
    names = list(scenarios())
    PS = {n_: ((2 if quick else 3) if scenarios()[n_]["workers"] == 2 else (1 if quick else 2)) for n_ in names}
    # level 0/1 of each DFS tree in a pre-pass, the sub-trees spread over the pool
    lvl = map_raw(_dispatch, [(shard_exhaustive, (c.prop, c.tier, c.seed, n_, PS[n_], None, False)) for n_ in names], jobs)
    args = []
    for n_, r in zip(names, lvl):
        P = PS[n_]
        kids = [{int(k): v for k, v in ch.items()} for ch in r.pop("children", [])]
        c.extra[f"pending:{n_}"] = r.pop("pending", [])
        c.merge(r)
        for i in range(0, len(kids), 6):
            args.append((shard_exhaustive, (c.prop, c.tier, c.seed, n_, P, kids[i:i + 6], True)))
    for n_ in names:
        args.append((shard_random, (c.prop, c.tier, c.seed * 1000 + len(args), n_, 25 if quick else 300)))
    run_shards(c, _dispatch, args, jobs)
    for n_ in names:
        tot = sum(v for k, v in c.extra.items() if k == f"schedules:{n_}")
        c.exhaustive_parts.append(f"{n_}: all schedules with <= {PS[n_]} pre-emptions of {scenarios()[n_]['workers']} workers: {tot} schedules")
    c.rule = ("case = (scenario, schedule given as the set of pre-emption points {yield index -> worker}). Yield points: before every SQL statement issued "
              "outside a transaction, after every commit, at every retry sleep. Non-trivial = a schedule with >= 1 pre-emption in which two workers were "
              "inside their handlers at the same time. Distinct = (scenario, pre-emption set).")
    c.assumptions += [
        "all workers share one in-memory connection and the baton never moves while a transaction is open: equivalent to statement-level interleaving under SQLite's single-writer / committed-read semantics (SQLITE_BUSY outcomes and pre-emption inside C code are out of reach)",
        "workers are the real poll_one -> _handle_message -> ack sequence on one shared QueueProcessor",
        "after the concurrent phase the rest of the run is drained by a single worker in FIFO order",
    ]
    for cls in [f"scenario:{n_}" for n_ in names] + ["preemptions:2", "preemptions:1", "random-deep"]:
        if c.classes.get(cls, 0) == 0:
            c.harness_error(f"generator starvation: class {cls} never produced")


def regress(c: Campaign, rec: dict[str, Any]) -> None:
    case = rec["case"]
    sc = scenarios()[case["scenario"]]
    prep = prepare(sc)
    pre = {int(k): v for k, v in case["preemptions"].items()}
    w, s = run_schedule(make_world_factory(prep), programs_for(sc), pre)
    judge(c, case["scenario"], sc, w, s, pre, ["regression"])


def replay(c: Campaign, rec: dict[str, Any]) -> int:
    regress(c, rec)
    for b, v in c.buckets.items():
        print(f"VIOLATION property={c.prop} replay=given\n  bucket: {b}\n  detail: {v['detail']}")
    if not c.buckets:
        print("replay: no violation")
    return 1 if c.buckets else 0
