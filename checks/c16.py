"""C16 - a stage sees exactly its ancestors' outputs, the nearest ancestor winning.

Domain: generated DAGs (<= 7 stages) whose tasks emit randomly overlapping output keys (scalar and list
valued), own context keys colliding with ancestor keys, continue-on-failure and skipped producers, jump loops
whose producers emit a different value per iteration, random delivery schedules; fan-in reducers over random
integer / list values under every branch completion order (engine) and every permutation of the branch list
(pure call of apply_output_reducers).
Oracle (over the context handed to Task.execute, recorded by the harness task): visible k_* keys = own keys
plus keys of transitive ancestors' current outputs, nothing else; scalar key: the stage's own value if it set
one, else the value of a maximal producer among its ancestors (unique maximal producer => exactly that
value) as produced in the current loop iteration; list key: duplicate-free union of all ancestors' items;
reducers sum/max/min = fold over all direct branches, collect/extend = multiset union, independent of order.
Ancestor outputs are reconstructed from the ledger by an independent re-evaluation of the emit scripts.
"""

from __future__ import annotations

import itertools
import random
from typing import Any

from hypothesis import HealthCheck, Phase, given, seed as hseed, settings, strategies as st

from vlib import tasks
from vlib.campaign import Campaign
from vlib.engine_d import Run
from vlib.par import run_shards
from vlib.sched import make_schedule, schedule_desc
from vlib.spec import KEYS, ancestors, by_ref, emit, features, make_loop, ok, stage

LEVEL = "exploration"


def _emits_now(t: dict[str, Any], idx: int, seen: dict[str, Any]) -> bool:
    b = t.get("b", "ok")
    if b == "ok":
        return True
    if b == "poll":
        return seen.get(f"_poll{idx}", 0) >= t.get("k", 1)
    if b == "transient":
        k = t.get("k", 1)
        return k >= 0 and seen.get(f"_prog{idx}", 0) >= k
    if b == "jump":
        j = t.get("j", 1)
        return j >= 0 and seen.get("_jump_count", 0) >= j
    if b == "suspend":
        return "_signal_name" in seen
    return False


def _emit_model(t: dict[str, Any], label: str, seen: dict[str, Any]) -> dict[str, Any]:
    """Independent re-statement of the scripted task's emit rules."""
    out: dict[str, Any] = {}
    jc = seen.get("_jump_count", 0)
    for e in t.get("emit", []):
        key, mode = e["key"], e.get("mode", "const")
        if mode == "iter":
            val: Any = f"{label}:{key}@{jc}"
        elif mode == "echo":
            val = f"{label}:{key}<{seen.get(e['src'])}>"
        elif mode == "int":
            val = e["value"]
        else:
            val = f"{label}:{key}"
        out[key] = [val] if e.get("list") else val
    return out


def judge(c: Campaign, spec: dict[str, Any], run: Run, desc: Any, extra=()) -> None:
    m = by_ref(spec)
    audit = run.w.audit()
    led = tasks.ledger_snapshot()
    id2ref = {f"W1-{r}": r for r in m}
    changes = [(step, id2ref[i], old, new, w) for _q, step, w, kind, i, old, new in audit if kind == "stage" and i in id2ref]
    case = {"spec": spec, "schedule": desc}
    rearmed_reader = False
    multi_producer = False
    jump_ctx_cases = [0]

    def outputs_at(a: str, t_step: int) -> dict[str, Any]:
        rearm = max([st_ for st_, r, _o, new, _w in changes if r == a and new == "NOT_STARTED" and st_ < t_step] + [-1])
        outs: dict[str, Any] = {}
        for e in led:
            if e["stage"] == a and rearm < e["step"] < t_step:
                t = m[a]["tasks"][e["task"]]
                if _emits_now(t, e["task"], e["seen"]):
                    for k, v in _emit_model(t, a, e["seen"]).items():
                        outs[k] = v
        return outs

    for e in led:
        s_ref = e["stage"]
        if s_ref not in m:
            continue
        s = m[s_ref]
        starts = [st_ for st_, r, old, new, _w in changes if r == s_ref and new == "RUNNING" and st_ <= e["step"]]
        if not starts:
            continue
        t_start = max(starts)
        was_rearmed = any(r == s_ref and new == "NOT_STARTED" and st_ < t_start for st_, r, _o, new, _w in changes)
        rearmed_reader |= was_rearmed
        anc = ancestors(spec, s_ref)
        anc_out = {a: outputs_at(a, t_start) for a in anc}
        own = {k: v for k, v in s.get("ctx", {}).items() if k.startswith("k_")}
        # values handed to this stage with the jump that re-armed it are set on the stage itself ("a value set on the stage itself wins")
        jc_seen = e["seen"].get("_jump_count", 0)
        if was_rearmed and jc_seen:
            for src in spec["stages"]:
                for t_ in src["tasks"]:
                    if t_.get("b") == "jump" and t_.get("to") == s_ref and t_.get("jctx"):
                        for k_, v_ in t_["jctx"].items():
                            own[k_] = f"{v_}@{jc_seen - 1}"
                            jump_ctx_cases[0] += 1
        reducers = s.get("reducers", {})
        seen = {k: v for k, v in e["seen"].items() if k.startswith("k_")}
        # keys written into the stage's own context by its earlier tasks are not part of this property
        expected_keys = set(own)
        for a in anc:
            expected_keys |= set(anc_out[a])
        tag = "|rearmed" if was_rearmed else ""
        extra_keys = set(seen) - expected_keys
        missing = expected_keys - set(seen)
        if extra_keys:
            c.violation("visible-set:foreign-key" + tag, case, f"{s_ref}.t{e['task']} saw {sorted(extra_keys)} which no ancestor produced (ancestors {sorted(anc)})")
        if missing:
            c.violation("visible-set:missing-key" + tag, case, f"{s_ref}.t{e['task']} did not see {sorted(missing)} produced by its ancestors")
        for k in sorted(expected_keys & set(seen)):
            producers = [a for a in anc if k in anc_out[a]]
            if k in reducers:
                ups = [u for u in s["req"] if k in anc_out.get(u, {})]
                vals = [anc_out[u][k] for u in ups]
                if not vals:
                    continue
                name = reducers[k]
                want: Any
                if name == "sum":
                    want = sum(vals)
                elif name == "max":
                    want = max(vals)
                elif name == "min":
                    want = min(vals)
                else:
                    flat: list[Any] = []
                    for v in vals:
                        flat.extend(v if isinstance(v, list) else [v])
                    want = sorted(map(str, flat))
                have = seen[k] if name in ("sum", "max", "min") else sorted(map(str, seen[k] if isinstance(seen[k], list) else [seen[k]]))
                if have != want:
                    c.violation(f"reducer:{name}", case, f"{s_ref} saw {k}={seen[k]!r}; fold of branch values {vals} gives {want!r}")
                continue
            is_list = any(isinstance(anc_out[a][k], list) for a in producers) or isinstance(own.get(k), list)
            if is_list:
                items: set[str] = set()
                for a in producers:
                    v = anc_out[a][k]
                    items |= set(map(str, v if isinstance(v, list) else [v]))
                if isinstance(own.get(k), list):
                    items |= set(map(str, own[k]))
                have_l = seen[k] if isinstance(seen[k], list) else [seen[k]]
                if sorted(map(str, have_l)) != sorted(items):
                    c.violation("list-value" + tag, case, f"{s_ref} saw {k}={seen[k]!r}, union of ancestor items is {sorted(items)}")
                continue
            if k in own:
                if seen[k] != own[k]:
                    c.violation("own-value-overridden" + tag, case, f"{s_ref} set {k}={own[k]!r} itself but saw {seen[k]!r}")
                continue
            if len(producers) >= 2:
                multi_producer = True
            maximal = [a for a in producers if not any(a in ancestors(spec, b) for b in producers if b != a)]
            allowed = {str(anc_out[a][k]) for a in maximal}
            if str(seen[k]) not in allowed:
                stale = any(str(seen[k]).split("@")[0].split("<")[0] == str(v).split("@")[0].split("<")[0] for v in allowed)
                kind = "stale-ancestor-value" if stale else "scalar-value"
                c.violation(kind + tag, case,
                            f"{s_ref}.t{e['task']} saw {k}={seen[k]!r}; maximal producer(s) {maximal} currently provide {sorted(allowed)}")
    nontrivial = multi_producer or rearmed_reader or any(s.get("reducers") for s in spec["stages"])
    c.case(("c16", spec, desc), nontrivial, [f"feat:{f}" for f in features(spec)] + list(extra)
           + (["multi-producer-path"] if multi_producer else []) + (["rearmed-reader"] if rearmed_reader else []) + (["jump-context"] if jump_ctx_cases[0] else []),
           sample={"spec": spec, "schedule": desc, "last_execution_saw": {k: v for k, v in led[-1]["seen"].items() if k.startswith("k_")} if led else {}}
           if nontrivial else None)


@st.composite
def data_dag(draw) -> dict[str, Any]:
    n = draw(st.integers(3, 7))
    stages = []
    for i in range(n):
        ref = f"s{i}"
        if i == 0:
            req: list[str] = []
        else:
            kk = draw(st.integers(1, min(3, i)))
            req = sorted(draw(st.lists(st.sampled_from([f"s{j}" for j in range(i)]), min_size=kk, max_size=kk, unique=True)))
        tasks_ = []
        for _ in range(draw(st.integers(1, 2))):
            em = []
            for key in draw(st.lists(st.sampled_from(KEYS), unique=True, max_size=2)):
                if key == "k_3":
                    em.append(emit(key, "const", list=True))
                else:
                    mode = draw(st.sampled_from(["const", "const", "echo"]))
                    em.append(emit(key, mode, src=draw(st.sampled_from(KEYS[:3]))) if mode == "echo" else emit(key, "const"))
            tasks_.append({"b": "ok", "emit": em})
        s = stage(ref, req, tasks_)
        flavour = draw(st.integers(0, 9))
        if flavour == 0 and i > 0:
            s["tasks"].append({"b": "fail"})
            s["cof"] = True
        elif flavour == 1 and i > 0:
            s["enabled"] = False
        elif flavour == 2:
            s["tasks"][0] = {"b": "poll", "k": 1, "emit": s["tasks"][0].get("emit", [])}
        if draw(st.integers(0, 3)) == 0:
            key = draw(st.sampled_from(KEYS))
            s["ctx"] = {key: [f"own-{ref}"] if key == "k_3" else f"own-{ref}"}
        stages.append(s)
    return {"name": "data-dag", "stages": stages}


@st.composite
def reducer_spec(draw) -> dict[str, Any]:
    k = draw(st.integers(2, 4))
    name = draw(st.sampled_from(["sum", "max", "min", "collect", "extend"]))
    stages = [stage("x", [], [ok()])]
    for i in range(k):
        if name in ("collect", "extend") and draw(st.booleans()):
            e = {"key": "k_r", "mode": "int", "value": draw(st.lists(st.integers(-5, 5), min_size=1, max_size=3))}
        else:
            e = {"key": "k_r", "mode": "int", "value": draw(st.integers(-50, 50))}
        n_t = draw(st.integers(1, 3))  # different lengths => different completion orders under FIFO too
        stages.append(stage(f"b{i}", ["x"], [ok() for _ in range(n_t - 1)] + [{"b": "ok", "emit": [e]}]))
    stages.append(stage("j", [f"b{i}" for i in range(k)], [ok()], reducers={"k_r": name}))
    return {"name": f"reducer-{name}", "stages": stages}


def loop_data_spec(shape: str, j: int) -> dict[str, Any]:
    return make_loop(shape, j, None)


@st.composite
def loop_ctx_spec(draw) -> dict[str, Any]:
    """u -> t -> m -> r (r jumps back to t): values handed to the target with the jump (jump context) that collide with an
    ancestor's key or are new, and a stage inside the loop keeping an own list under a key its re-armed ancestor also emits."""
    j = draw(st.integers(1, 2))
    jctx = draw(st.sampled_from([None, {"k_0": "jumpctx"}, {"k_1": "jumpctx"}, {"k_0": "jumpctx", "k_1": "jumpctx2"}]))
    t_emit = [emit("k_2", "iter")] + ([emit("k_3", "iter", list=True)] if draw(st.booleans()) else [])
    m = stage("m", ["t"], [ok(emit("k_1", "echo", src="k_2"))])
    if draw(st.booleans()):
        m["ctx"] = {"k_3": ["own-m"]}
    jt: dict[str, Any] = {"b": "jump", "to": "t", "j": j, "emit": []}
    if jctx:
        jt["jctx"] = jctx
    return {"name": "loop-ctx", "stages": [stage("u", [], [ok(emit("k_0"))]), stage("t", ["u"], [{"b": "ok", "emit": t_emit}]), m,
                                           stage("r", ["m"], [jt]), stage("z", ["r"], [ok()])]}


def shard(prop: str, tier: str, seed: int, n: int) -> dict[str, Any]:
    c = Campaign(prop, tier, seed, LEVEL)
    spec_st = st.one_of(data_dag(), data_dag(), reducer_spec(),
                        st.builds(loop_data_spec, st.sampled_from(["cycle2", "cycle3", "cycle4", "side", "mid_target", "nested", "self"]),
                                  st.integers(1, 2)), loop_ctx_spec())

    @hseed(seed)
    @settings(max_examples=n, database=None, deadline=None, derandomize=False, suppress_health_check=list(HealthCheck),
              phases=[Phase.generate], report_multiple_bugs=False)
    @given(spec_st, st.one_of(st.just({"style": "fifo", "d": [], "R": 2}), schedule_desc()))
    def t(spec, sd):
        run = Run(spec, make_schedule(sd)).drain()
        judge(c, spec, run, sd, [f"style:{sd['style']}"])

    t()
    return c.export()


def shard_pure_reducers(prop: str, tier: str, seed: int, n: int) -> dict[str, Any]:
    """apply_output_reducers: fold laws and permutation invariance on random value multisets."""
    from stabilize.reducers import apply_output_reducers

    c = Campaign(prop, tier, seed, LEVEL)
    rnd_perm_cap = 24

    @hseed(seed)
    @settings(max_examples=n, database=None, deadline=None, derandomize=False, suppress_health_check=list(HealthCheck),
              phases=[Phase.generate], report_multiple_bugs=False)
    @given(st.sampled_from(["sum", "max", "min", "collect", "append", "extend"]),
           st.lists(st.one_of(st.integers(-10**6, 10**6), st.lists(st.integers(-9, 9), max_size=3), st.none(), st.just("absent")),
                    min_size=1, max_size=5), st.randoms(use_true_random=False))
    def t(name, vals, rnd):
        if name in ("sum", "max", "min"):
            vals = [v for v in vals if not isinstance(v, list)]
            if not [v for v in vals if isinstance(v, int)]:
                return
        branches = [({} if v == "absent" else {"k": v, "other": i}) for i, v in enumerate(vals)]
        present = [v for v in vals if v != "absent"]
        if not present:
            return
        perms = list(itertools.permutations(range(len(branches))))
        if len(perms) > rnd_perm_cap:
            perms = rnd.sample(perms, rnd_perm_cap)
        results = []
        for p in perms:
            try:
                results.append(apply_output_reducers({"k": name}, [dict(branches[i]) for i in p]))
            except Exception as ex:  # noqa: BLE001
                results.append({"__raised__": f"{type(ex).__name__}"})
        nums = [v for v in present if isinstance(v, int)]
        if name == "sum":
            want: Any = sum(nums)
        elif name == "max":
            want = max(nums)
        elif name == "min":
            want = min(nums)
        else:
            flat: list[Any] = []
            for v in present:
                if isinstance(v, list):
                    flat.extend(v)
                elif v is not None or name != "extend":
                    flat.append(v)
            want = sorted(map(str, flat))
        case = {"reducer": name, "values": vals}
        for r in results:
            if "__raised__" in r:
                c.violation(f"pure-reducer:{name}:raises", case, f"apply_output_reducers raised {r['__raised__']}")
                break
            have = r.get("k")
            if name in ("sum", "max", "min"):
                if have != want:
                    c.violation(f"pure-reducer:{name}:fold", case, f"{name}({present}) = {have!r}, expected {want!r}")
                    break
            else:
                if sorted(map(str, have)) != want:
                    c.violation(f"pure-reducer:{name}:multiset", case, f"{name}({present}) = {have!r}, expected multiset {want}")
                    break
            if set(r) != {"k"}:
                c.violation(f"pure-reducer:{name}:foreign-key", case, f"result has keys {sorted(r)}; only the reducer key is expected")
                break
        c.case(("red", name, vals), len(present) >= 2, ["pure-reducer", f"pure:{name}"], sample=case if len(present) >= 3 else None)

    t()
    return c.export()


def _dispatch(fn, a):  # noqa: ANN001
    return fn(*a)


def run(c: Campaign, jobs: int) -> None:
    quick = c.tier == "quick"
    n = 2000 if quick else 50000
    n_pure = 4000 if quick else 100000
    shards = max(1, jobs)
    args = [(shard, (c.prop, c.tier, c.seed * 1000 + k, max(1, n // shards))) for k in range(shards)]
    args += [(shard_pure_reducers, (c.prop, c.tier, c.seed * 1000 + 900 + k, max(1, n_pure // 4))) for k in range(4)]
    run_shards(c, _dispatch, args, jobs)
    c.rule = ("engine case = (spec, schedule): the oracle is evaluated for every task execution of the run; pure case = (reducer, branch "
              "value multiset) evaluated under every permutation of the branch list (<= 24 sampled when more). Non-trivial engine case = "
              "some key is produced by >= 2 ancestors of a reader, or a re-armed stage reads ancestor data, or a reducer is configured; "
              "non-trivial pure case = >= 2 branches carry the key. Distinct = hash of the case.")
    c.assumptions += [
        "incomparable maximal producers: any of their values is accepted (the merge orders unrelated branches by set iteration)",
        "values written into a stage's own context by its own earlier tasks are outside the property and not judged",
        "integer reducer inputs (no float rounding); 'merge', 'first', 'last' are order-sensitive by definition and not judged",
        "single worker thread; SQLite only",
    ]
    for cls in ("multi-producer-path", "rearmed-reader", "jump-context", "feat:reducers", "pure:sum", "pure:collect", "feat:continue-on-failure"):
        if c.classes.get(cls, 0) == 0:
            c.harness_error(f"generator starvation: class {cls} never produced")


def regress(c: Campaign, rec: dict[str, Any]) -> None:
    case = rec["case"]
    if "spec" in case:
        run_ = Run(case["spec"], make_schedule(case["schedule"])).drain()
        judge(c, case["spec"], run_, case["schedule"], ["regression"])


def replay(c: Campaign, rec: dict[str, Any]) -> int:
    regress(c, rec)
    for b, v in c.buckets.items():
        print(f"VIOLATION property={c.prop} replay=given\n  bucket: {b}\n  detail: {v['detail']}")
    if not c.buckets:
        print("replay: no violation")
    return 1 if c.buckets else 0
