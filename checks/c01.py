"""C01 - crash anywhere, restart with recovery: same outcome as an uninterrupted run.

Domain: spec (core corpus + Hypothesis-drawn DAG / loop / early-join specs) x EVERY commit point of its
FIFO run x {external effect of the in-flight task execution absent, present}; thorough tier: x every commit
point of the recovery run as well (second crash, including around the recovery sweep's own commit).
Fault enumeration: the crash index is enumerated, not sampled.
Oracle after restart (all in-memory engine state dropped), lock expiry, one recovery sweep and a FIFO drain:
outcome signature equals the uninterrupted run's (equality on confluent specs, validity predicate on racy
ones, statuses/counts for early-firing joins); per-task execution counts >= reference and > reference only
for the task addressed by the message in flight at the crash, by at most 1; every stage saw the same
upstream data; queue and DLQ empty; nothing RUNNING or half-started in a finished workflow.
"""

from __future__ import annotations

import hashlib
import json
import sqlite3
from typing import Any

from hypothesis import HealthCheck, Phase, given, seed as hseed, settings, strategies as st

from vlib import oracles
from vlib.campaign import Campaign, chash
from vlib.engine_d import Schedule
from vlib.engine_k import crash_states, recover_from
from vlib.par import map_raw, run_shards
from vlib.spec import core_corpus, dag_spec, features, loop_spec, syn_confluent_spec

LEVEL = "fault_enumeration"
CORPUS_SKIP = ("gate",)  # gate: waits for a signal (C18)


def window_of(cs: dict[str, Any]) -> str:
    """Structural predicate of the crash state (root-cause part of the bucket key)."""
    con = sqlite3.connect(":memory:")
    try:
        con.deserialize(cs["blob"])
        inf = cs.get("inflight")
        stages = con.execute("SELECT id, name, status, start_time, parent_stage_id, synthetic_stage_owner FROM stage_executions").fetchall()
        tasks_by_stage: dict[str, list[str]] = {}
        for sid, st_ in con.execute("SELECT stage_id, status FROM task_executions"):
            tasks_by_stage.setdefault(sid, []).append(st_)
        pending = [json.loads(p) for (p,) in con.execute("SELECT payload FROM queue_messages")]
        for sid, name, status, start_time, parent, owner in stages:
            ts = tasks_by_stage.get(sid, [])
            kids = [(s[2], s[5], s[0]) for s in stages if s[4] == sid]
            if status == "RUNNING" and ts and all(t == "NOT_STARTED" for t in ts):
                has_start_task = any(p.get("stage_id") == sid and p.get("task_id") for p in pending)
                kids_untouched = all(k[0] == "NOT_STARTED" and not any(p.get("stage_id") == k[2] for p in pending) for k in kids)
                if not has_start_task and kids_untouched:
                    # claim committed, plan commit (tasks' StartTask / children's StartStage) not: the planning never became durable
                    return "claimed-not-planned"
                before_open = [k for k in kids if k[1] == "STAGE_BEFORE" and k[0] not in oracles.COMPLETE]
                if before_open:
                    return "parent-waiting-for-before-child"
        if inf:
            return f"during:{inf['type']}"
        return "between-steps"
    finally:
        con.close()


def judge_recovery(c: Campaign, spec: dict[str, Any], cs: dict[str, Any], rec: dict[str, Any], variant: str,
                   case_extra: dict[str, Any] | None = None, reordered: bool = False) -> None:
    ref = cs["ref"]["outcome"]
    got = rec["outcome"]
    kind = oracles.classify(spec)
    viol: list[tuple[str, str]] = []
    # statuses / structure
    if kind == "choice":
        # after the restart the other member of the group may win (the order in which the members' StartStage messages are
        # redelivered is not the original one): the multiset of the group's statuses counts
        base = oracles.compare_outcome(spec, ref, got)
    elif kind == "confluent":
        base = oracles.compare_exact(ref, got, data=False)
    elif kind == "racy-fail":
        base = oracles.compare_racy_fail(spec, ref, got)
    else:
        base = oracles.compare_exact(ref, got, data=False)
    allowed_list = [a for a in (rec.get("allowed_extras") or [rec.get("allowed_extra")]) if a]
    allowed = ", ".join(allowed_list) or None
    for clause, detail in base:
        if clause == "extra-execution":
            continue  # judged below with the in-flight allowance
        viol.append((clause, detail))
    if kind != "racy-fail" and kind != "choice":
        for k in sorted(set(ref["counts"]) | set(got["counts"])):
            r, g = ref["counts"].get(k, 0), got["counts"].get(k, 0)
            if g > r + allowed_list.count(k):
                viol.append(("extra-execution", f"{k}: executed {g}x, uninterrupted run {r}x (in-flight task at the crash: {allowed})"))
    # upstream data every stage saw (set comparison: a legitimate re-execution sees the same data again)
    # early-firing joins included: the recovery drain is FIFO like the reference run, so which upstreams had finished when the
    # join was planned is the same unless a crash lost the join's trigger (it then fires late and sees more)
    if kind in ("confluent", "early-join") and not (kind == "early-join" and reordered) and not any(cl in ("missing-execution", "stage-status", "workflow-status") for cl, _d in viol):
        for k in ref["seen"]:
            a = {json.dumps(x, sort_keys=True) for x in ref["seen"][k]}
            b = {json.dumps(x, sort_keys=True) for x in got["seen"].get(k, [])}
            if a != b:
                viol.append(("visible-data", f"{k} saw {sorted(b - a)[:2]} instead of {sorted(a - b)[:2]}"))
                break
    if rec["step_bound_hit"]:
        viol.append(("no-quiescence", "messages still deliverable after the step bound"))
    if got["queue"]:
        viol.append(("stranded-message", f"{got['queue']} message(s) left in the queue"))
    if got["dlq"]:
        viol.append(("dead-letter", f"{got['dlq']} message(s) in the DLQ"))
    if got["workflow"] in oracles.COMPLETE:
        running = [k for k, v in got["stages"].items() if v == "RUNNING"] + [k for k, v in got["tasks"].items() if v == "RUNNING"
                                                                             and got["stages"].get(k.split(".")[0]) not in oracles.COMPLETE]
        if running:
            viol.append(("finished-with-running", f"workflow {got['workflow']} but still RUNNING: {running[:4]}"))
        if rec["half_started"]:
            viol.append(("half-started", f"stage(s) {rec['half_started']} NOT_STARTED with a start time in a finished workflow"))
    if not viol:
        return
    win = window_of(cs)
    if case_extra and case_extra.get("first_window"):
        first = case_extra["first_window"]
        # two crashes: the more specific structural predicate names the root cause
        for special in ("claimed-not-planned", "parent-waiting-for-before-child"):
            if special in (first, win):
                win = special
                break
        else:
            win = f"{first}+{win}"
    stuck = rec.get("stuck") or ""
    case = {"spec": spec, "crash_commit": cs["index"], "of": cs.get("total_commits"), "step": cs["step"], "phase": cs["phase"],
            "inflight": (cs.get("inflight") or {}).get("type"), "variant": variant}
    if case_extra:
        case.update(case_extra)
    if stuck:
        c.violation(f"stuck|{stuck}|{win}", case, "; ".join(d for _c, d in viol)[:400], sig={"window": win, "kind": kind})
    else:
        for clause, detail in viol:
            c.violation(f"{clause}|{win}", case, detail, sig={"window": win, "kind": kind})


POST_ORDERS = ([2], [2, 2], [4], [2, 4])


def enumerate_spec(c: Campaign, spec: dict[str, Any], double: bool, max_double: int = 0, reorder: bool = False) -> None:
    states = crash_states(spec)
    if not states:
        return
    ref = states[0]["ref"]["outcome"]
    if ref["workflow"] not in oracles.COMPLETE:
        c.count("reference-not-final-skipped")
        return
    total = len(states)
    prev_hash = None
    for cs in states:
        variants = [("before-effect", False)]
        if cs["ledger_len_next"] > cs["ledger_len"]:
            variants.append(("after-effect", True))
        h = hashlib.sha1(cs["blob"]).hexdigest()
        for vname, after in variants:
            rec = recover_from(spec, cs, after_execute=after, snapshot_recovery=double)
            judge_recovery(c, spec, cs, rec, vname)
            started = cs["step"] >= 1
            finished = cs["index"] >= total - 1
            nontrivial = started and not finished and h != prev_hash
            c.case(("c01", spec, cs["index"], vname), nontrivial,
                   [f"feat:{f}" for f in features(spec)] + [f"inflight:{(cs.get('inflight') or {}).get('type', 'none')}", f"variant:{vname}"],
                   sample={"spec": spec["name"], "crash_after_commit": cs["index"], "of": total, "in_flight": (cs.get("inflight") or {}).get("type"),
                           "variant": vname, "recovered_workflow": rec["outcome"]["workflow"], "recovery": rec["recovery"]} if nontrivial and cs["index"] % 17 == 3 else None)
            if reorder and vname == "before-effect":
                # the same restart, but what the recovered system has to deliver (redelivered in-flight messages, what the recovery
                # sweep queued, what was pending) reaches the workers in another order than FIFO
                for d in POST_ORDERS:
                    rec_o = recover_from(spec, cs, schedule=Schedule(list(d), 2))
                    judge_recovery(c, spec, cs, rec_o, f"reordered:{d}", {"post_order": list(d)}, reordered=True)
                    c.case(("c01o", spec, cs["index"], tuple(d)), started and not finished, ["post-recovery-reordered"])
            if double:
                inner = rec["inner_states"]
                step = 1 if max_double <= 0 else max(1, len(inner) // max_double)
                for cs2 in inner[::step]:
                    cs2["total_commits"] = len(inner)
                    for vname2, after2 in ([("before-effect", False)] + ([("after-effect", True)] if cs2["ledger_len_next"] > cs2["ledger_len"] else [])):
                        rec2 = recover_from(spec, cs2, after_execute=after2)
                        # the allowance: the in-flight task of each of the two crashes, once each
                        rec2["allowed_extras"] = [rec.get("allowed_extra"), rec2.get("allowed_extra")]
                        cs2["ref"]["outcome"] = cs["ref"]["outcome"]
                        judge_recovery(c, spec, cs2, rec2, f"{vname}+{vname2}",
                                       {"first_crash_commit": cs["index"], "first_window": window_of(cs)})
                        c.case(("c01d", spec, cs["index"], vname, cs2["index"], vname2), True, ["double-crash"])
        prev_hash = h


def all_specs() -> dict[str, dict[str, Any]]:
    from vlib.spec import emit, ok, stage

    out = dict(core_corpus())
    out["t_pair"] = {"name": "t_pair", "stages": [stage("a", [], [ok(emit("k_a"))]), stage("b", ["a"], [ok(emit("k_b", "echo", src="k_a"))])]}
    # synthetic children beyond the corpus' single before / after child (DESIGN 7.2, F11-F12)
    a, z = stage("a", [], [ok(emit("k_a"))]), stage("z", ["p"], [ok()])
    out["syn_after3"] = {"name": "syn_after3", "stages": [a, stage("p", ["a"], [ok(emit("k_p"))], syn={"before": [], "after": ["ok"] * 3, "parallel": True, "pre": False, "onfail": []}), z]}
    out["syn_onfail2"] = {"name": "syn_onfail2", "stages": [a, stage("p", ["a"], [{"b": "fail"}], syn={"before": ["ok"], "after": [], "parallel": False, "pre": False, "onfail": ["ok", "ok"]}), z]}
    out["syn_pre_fail"] = {"name": "syn_pre_fail", "stages": [a, stage("p", ["a"], [{"b": "fail"}], syn={"before": ["ok"], "after": ["ok"], "parallel": False, "pre": True}), z]}
    out["firstof_slow"] = {"name": "firstof_slow", "stages": [
        stage("a", [], [ok(emit("k_a"))]), stage("fast", ["a"], [ok(emit("k_f"))]), stage("slow", ["a"], [{"b": "poll", "k": 2, "emit": [emit("k_s")]}]),
        stage("j", ["fast", "slow"], [ok(emit("k_j"))], join="DISC"), stage("z", ["j"], [ok()])]}
    out["syn_pre_ok"] = {"name": "syn_pre_ok", "stages": [a, stage("p", ["a"], [ok(emit("k_p"))], syn={"before": ["ok", "ok"], "after": ["ok", "ok"], "parallel": True, "pre": True}), z]}
    return out


def shard_corpus(prop: str, tier: str, seed: int, name: str, double: bool) -> dict[str, Any]:
    c = Campaign(prop, tier, seed, LEVEL)
    enumerate_spec(c, all_specs()[name], double, reorder=not double)
    return c.export()


def shard_generated(prop: str, tier: str, seed: int, n: int, double_budget: int) -> dict[str, Any]:
    c = Campaign(prop, tier, seed, LEVEL)
    spec_st = st.one_of(
        dag_spec(max_stages=6, allow=("multi", "fail", "cof", "stop", "poll", "transient")),
        dag_spec(max_stages=5, allow=("multi", "poll"), joins=("AND", "DISC", "NOFM")),
        loop_spec(max_j=2),
        syn_confluent_spec(),
    )

    @hseed(seed)
    @settings(max_examples=n, database=None, deadline=None, derandomize=False, suppress_health_check=list(HealthCheck),
              phases=[Phase.generate], report_multiple_bugs=False)
    @given(spec_st)
    def t(spec):
        enumerate_spec(c, spec, double=False)

    t()
    return c.export()


def _dispatch(fn, a):  # noqa: ANN001
    return fn(*a)


def run(c: Campaign, jobs: int) -> None:
    quick = c.tier == "quick"
    names = [k for k in core_corpus() if k not in CORPUS_SKIP]
    names += ["syn_after3", "syn_onfail2", "syn_pre_fail", "syn_pre_ok", "firstof_slow"]
    args = [(shard_corpus, (c.prop, c.tier, c.seed, name, False)) for name in names]
    n_gen = 32 if quick else 480
    shards = max(1, jobs)
    args += [(shard_generated, (c.prop, c.tier, c.seed * 1000 + k, max(1, n_gen // shards), 0)) for k in range(shards)]
    if not quick:
        # every pair of successive crashes (second crash at every commit of the recovery run) for the small corpus specs
        args += [(shard_corpus, (c.prop, c.tier, c.seed, name, True)) for name in ("chain", "diamond", "multitask", "cof", "poll", "transient", "selfloop", "terminal", "skip", "built")]
    else:
        args += [(shard_corpus, (c.prop, c.tier, c.seed, name, True)) for name in ("t_pair",)]
    run_shards(c, _dispatch, args, jobs)
    c.exhaustive_parts.append("every commit point of each corpus workflow recovered under the delivery orders " + str([list(d) for d in POST_ORDERS]) + " besides FIFO")
    c.exhaustive_parts.append("every commit point (x effect absent/present) of the FIFO run of each explored spec; "
                              + ("every pair of successive crashes for 10 corpus specs" if not quick else "every pair of successive crashes for the 2-stage chain t_pair"))
    c.rule = ("case = (spec, crash after commit i of its FIFO run, variant: external effect of the in-flight execution absent/present). Each case is "
              "recovered (restart, lock expiry, recovery sweep, drain) and judged. Non-trivial = the workflow has started and is not finished at the "
              "crash point and the durable state differs from the previous crash point's. Distinct = (spec, i, variant).")
    c.assumptions += [
        "the state after a kill between commits i and i+1 is the bytes of commit i (SQLite atomic commit is trusted, torn writes are not modelled)",
        "restart drops every engine singleton the harness knows of (ConnectionManager, dedup filter, executing-task table, cancellation tokens, event bus/recorder)",
        "recovery drain is FIFO and, for the corpus workflows, additionally under 4 fixed non-FIFO orders of the first deliveries after the restart (statuses / counts judged; the data an early-firing join saw is only compared for the FIFO drain)",
        "SQLite backend only",
    ]
    for cls in ("feat:jump", "feat:poll", "feat:transient", "feat:terminal-failure", "feat:continue-on-failure", "feat:multi-task",
                "feat:join-DISC", "feat:join-NOFM", "feat:after-child", "feat:before-child", "feat:onfail-child", "feat:predeclared-child",
                "variant:after-effect", "double-crash", "post-recovery-reordered"):
        if c.classes.get(cls, 0) == 0:
            c.harness_error(f"generator starvation: class {cls} never produced")


def regress(c: Campaign, rec: dict[str, Any]) -> None:
    case = rec["case"]
    states = crash_states(case["spec"])
    cs = states[case["crash_commit"]]
    if case.get("post_order"):
        r = recover_from(case["spec"], cs, schedule=Schedule(list(case["post_order"]), 2))
        judge_recovery(c, case["spec"], cs, r, case["variant"], {"post_order": case["post_order"]}, reordered=True)
        return
    r = recover_from(case["spec"], cs, after_execute=case.get("variant") == "after-effect")
    judge_recovery(c, case["spec"], cs, r, case.get("variant", "before-effect"))


def replay(c: Campaign, rec: dict[str, Any]) -> int:
    regress(c, rec)
    for b, v in c.buckets.items():
        print(f"VIOLATION property={c.prop} replay=given\n  bucket: {b}\n  detail: {v['detail']}")
    if not c.buckets:
        print("replay: no violation")
    return 1 if c.buckets else 0
