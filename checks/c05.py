"""C05 - when the engine goes quiet every workflow is finished or explicitly waiting.

Domain: specs emphasising failing branches beside running ones, early-firing joins, synthetic
before/after children, skip, deferred choice, mutex, suspend gates, jump loops; schedules as C02
(reordering, lost acks, hold-back bias) plus injected duplicate StartStage messages.
Oracle at quiescence (queue empty after fast-forwarding every delay): workflow status is final, or
something is explicitly waiting (stage SUSPENDED/PAUSED, workflow PAUSED/BUFFERED).  SUCCEEDED =>
every top-level stage continuable; a TERMINAL top-level stage => workflow final and failed; final
workflow => no stage/task RUNNING.  (A dead-lettered message beside a final workflow is counted, not judged:
the property speaks about workflows, and a stranded one is reported as stuck.)  Bounded liveness: the harness delivers until nothing
is deliverable (fairness rule of DESIGN 2.5).
"""

from __future__ import annotations

from typing import Any

from hypothesis import HealthCheck, Phase, given, seed as hseed, settings, strategies as st

from vlib import oracles
from vlib.campaign import Campaign
from vlib.engine_d import Run, inj_pause, inj_start_stage, inj_unpause
from vlib.par import run_shards
from vlib.sched import make_schedule, schedule_desc
from vlib.spec import core_corpus, dag_spec, features, loop_spec

LEVEL = "exploration"


def quiescence_clauses(run: Run) -> list[tuple[str, str]]:
    out: list[tuple[str, str]] = []
    wf = run.workflow()
    ws = wf.status.name
    top = [s for s in wf.stages if s.parent_stage_id is None]
    if run.step_bound_hit:
        out.append(("no-quiescence", f"messages still deliverable after {run.steps} deliveries"))
        return out
    final = ws in oracles.COMPLETE
    if not final and not oracles.explicitly_waiting(run):
        out.append((f"stuck|{oracles.diagnose_stuck(run)}", f"workflow {ws}, queue empty, nothing suspended/paused; stages "
                    + str({s.name: s.status.name for s in wf.stages})))
    if ws == "SUCCEEDED":
        # documented exception (stage option failPipeline=false, CompleteWorkflow's STOPPED rule): such a stage may end STOPPED in a
        # SUCCEEDED workflow, and what hangs off it never starts
        stopped = {s.ref_id for s in top if s.status.name == "STOPPED" and s.context.get("failPipeline") is False}
        behind: set[str] = set()
        grew = True
        while grew:
            grew = False
            for s in top:
                if s.ref_id not in behind and s.status.name == "NOT_STARTED" and (set(s.requisite_stage_ref_ids) & (stopped | behind)):
                    behind.add(s.ref_id)
                    grew = True
        bad = {s.name: s.status.name for s in top if s.status.name not in oracles.CONTINUABLE and s.ref_id not in stopped and s.ref_id not in behind}
        if bad:
            out.append(("succeeded-with-unfinished-stage", f"workflow SUCCEEDED but {bad}"))
    if any(s.status.name == "TERMINAL" for s in top):
        if not final:
            pass  # already reported as stuck (or it is explicitly waiting on another branch)
        elif ws == "CANCELED" and any(s.status.name == "CANCELED" and s.deferred_choice_group for s in top):
            pass  # the loser of a deferred choice is CANCELED by design and that status finalises the workflow as CANCELED (the repo's own
            # deferred-choice test expects it); a branch failing afterwards cannot change a final status any more
        elif ws != "TERMINAL" and not wf.is_canceled:
            # no cancel was requested in this campaign, so nothing but the failure explains the end of the workflow
            out.append(("terminal-stage-not-failed", f"a top-level stage is TERMINAL but workflow is {ws}"))
    if final:
        running = {s.name: s.status.name for s in wf.stages if s.status.name == "RUNNING"}
        rt = {f"{s.name}.{t.name}": t.status.name for s in wf.stages for t in s.tasks if t.status.name == "RUNNING"
              and s.status.name not in oracles.COMPLETE}
        if running:
            out.append(("finished-with-running-stage", f"workflow {ws} but stages still RUNNING: {running}"))
        elif rt:
            out.append(("finished-with-running-task", f"workflow {ws} but tasks RUNNING: {rt}"))
    # A dead-lettered message is not itself a violation of C05 (the statement is about workflows being final or
    # explicitly waiting); when it strands a workflow the "stuck" clause above reports it.  It is counted (judge()).
    return out


def interesting(spec: dict[str, Any]) -> bool:
    f = set(features(spec))
    kind = oracles.classify(spec)
    return kind in ("racy-fail", "early-join", "choice") or bool(f & {"before-child", "after-child", "onfail-child", "jump", "suspend", "mutex"})


def judge(c: Campaign, spec: dict[str, Any], run: Run, desc: Any, extra=()) -> None:
    viol = quiescence_clauses(run)
    wf = run.workflow()
    case = {"spec": spec, "schedule": desc}
    for clause, detail in viol:
        c.violation(clause, case, detail, sig={"features": features(spec)})
    nontrivial = interesting(spec) and bool(run.schedule.out_of_order or run.schedule.redelivered)
    if run.w.dlq_size():
        c.count("dead-lettered-message-with-final-or-waiting-workflow" if not any(cl.startswith("stuck") for cl, _d in viol) else "dead-lettered-message-and-stuck")
    c.case(("c05", spec, desc), nontrivial, [f"kind:{oracles.classify(spec)}", f"final:{wf.status.name}"]
           + [f"feat:{f}" for f in features(spec)] + list(extra),
           sample={"spec": spec["name"], "schedule": desc, "workflow": wf.status.name,
                   "stages": {s.name: s.status.name for s in wf.stages}} if nontrivial else None)


def spec_strategy():
    corpus = list(core_corpus().values())
    return st.one_of(
        st.sampled_from(corpus),
        dag_spec(max_stages=6, allow=("multi", "fail", "cof", "stop", "poll", "skip", "disabled")),
        dag_spec(max_stages=5, allow=("multi", "poll"), joins=("AND", "DISC", "NOFM")),
        loop_spec(),
        synthetic_spec(),
    )


@st.composite
def synthetic_spec(draw) -> dict[str, Any]:
    """Chains/diamonds whose stages carry before/after children, mutex keys or a deferred-choice group."""
    from vlib.spec import ok, stage

    n = draw(st.integers(2, 4))
    stages = [stage("s0", [], [ok()])]
    for i in range(1, n):
        req = [f"s{draw(st.integers(0, i - 1))}"]
        s = stage(f"s{i}", req, [ok()] * draw(st.integers(1, 2)))
        kind = draw(st.sampled_from(["before", "after", "both", "mutex", "choice", "fail", "plain", "syn", "syn", "syn"]))
        if kind == "syn":
            # scripted children: parallel or sequential, some failing, on-failure children, a parent task that may fail,
            # continue-on-failure on the parent, children declared with the workflow instead of by the builder
            beh = st.sampled_from(["ok", "ok", "ok", "fail", "failcof"])
            syn = {"before": draw(st.lists(beh, max_size=2)), "after": draw(st.lists(beh, max_size=2)),
                   "parallel": draw(st.booleans()), "pre": draw(st.integers(0, 3)) == 0}
            if not syn["pre"]:
                syn["onfail"] = draw(st.lists(beh, max_size=2))
            if not (syn["before"] or syn["after"] or syn.get("onfail")):
                syn["before"] = ["ok"]
            s["syn"] = syn
            if draw(st.integers(0, 2)) == 0:
                s["tasks"] = [{"b": "fail"}]
            s["cof"] = draw(st.booleans())
        if kind in ("before", "both"):
            s["before"] = 1
        if kind in ("after", "both"):
            s["after"] = 1
        if kind == "mutex":
            s["mutex"] = "m"
        if kind == "choice":
            s["choice"] = "g"
            s["req"] = ["s0"]  # a deferred choice is a choice among alternative branches leaving one point
        if kind == "fail":
            s["tasks"] = [{"b": "fail"}]
            s["cof"] = draw(st.booleans())
        stages.append(s)
    return {"name": "syn", "stages": stages}


def shard(prop: str, tier: str, seed: int, n: int) -> dict[str, Any]:
    c = Campaign(prop, tier, seed, LEVEL)

    @hseed(seed)
    @settings(max_examples=n, database=None, deadline=None, derandomize=False, suppress_health_check=list(HealthCheck),
              phases=[Phase.generate], report_multiple_bugs=False)
    @given(spec_strategy(), schedule_desc(), st.lists(st.tuples(st.integers(0, 40), st.integers(0, 5)), max_size=2))
    def t(spec, sd, dups):
        run = Run(spec, make_schedule(sd))
        refs = [s["ref"] for s in spec["stages"]]
        for at, which in dups:
            run.injections.setdefault(at, []).append(inj_start_stage(refs[which % len(refs)]))
        run.drain()
        desc = dict(sd)
        desc["dup_startstage"] = [[at, refs[which % len(refs)]] for at, which in dups]
        judge(c, spec, run, desc, [f"style:{sd['style']}"] + (["inj:dup-startstage"] if dups else []))

    t()
    return c.export()


PAUSE_SWEEP = ("chain", "diamond", "multitask", "terminal_sibling", "cof", "poll", "firstof", "before", "after", "loop2")


def pause_case(c: Campaign, spec: dict[str, Any], sd: dict[str, Any], at: int, extra=()) -> None:
    """Operator pause before delivery ``at``; once the engine is quiet the workflow must be final or waiting (paused counts);
    then the operator resumes, and once the engine is quiet again the workflow must be final (or waiting for something else)."""
    run = Run(spec, make_schedule(sd))
    run.injections.setdefault(at, []).append(inj_pause())
    run.drain()
    desc = {**sd, "pause_at": at}
    case = {"spec": spec, "schedule": desc}
    paused = run.workflow().status.name == "PAUSED"
    for clause, detail in quiescence_clauses(run):
        c.violation(f"{clause}|paused", case, detail + " (quiet after an operator pause)", sig={"features": features(spec)})
    if paused:
        inj_unpause()(run)
        run.drain()
        for clause, detail in quiescence_clauses(run):
            c.violation(f"{clause}|after-resume", case, detail + " (quiet after pause + resume)", sig={"features": features(spec)})
        if run.workflow().status.name == "PAUSED":
            c.violation("still-paused-after-resume", case, "the workflow is still PAUSED although the operator resumed it and the engine is quiet")
    c.case(("c05p", spec, desc), paused, ["pause-sweep", "paused" if paused else "pause-not-applied"] + list(extra),
           sample={"spec": spec["name"], "pause_at": at, "workflow": run.workflow().status.name} if paused and at % 7 == 3 else None)


def shard_pause_sweep(prop: str, tier: str, seed: int, name: str) -> dict[str, Any]:
    c = Campaign(prop, tier, seed, LEVEL)
    spec = core_corpus()[name]
    fifo = {"style": "fifo", "d": [], "R": 2}
    steps = Run(spec, make_schedule(fifo)).drain().steps
    sds = [fifo]
    for at in range(steps + 2):
        for sd in sds:
            pause_case(c, spec, sd, at)
    return c.export()


def _dispatch(fn, a):  # noqa: ANN001
    return fn(*a)


def run(c: Campaign, jobs: int) -> None:
    n = 6000 if c.tier == "quick" else 120000
    shards = max(1, jobs)
    args = [(shard, (c.prop, c.tier, c.seed * 1000 + k, max(1, n // shards))) for k in range(shards)]
    args += [(shard_pause_sweep, (c.prop, c.tier, c.seed, name)) for name in PAUSE_SWEEP]
    run_shards(c, _dispatch, args, jobs)
    c.exhaustive_parts.append(f"operator pause before every delivery position of the FIFO run of {len(PAUSE_SWEEP)} corpus workflows, then resume")
    c.rule = ("case = (spec, schedule, injected duplicate StartStage messages). Specs: core corpus, generated DAGs with halting / "
              "continue-on-failure branches, first-of/quorum joins, jump loops, stages with before/after children, mutex, deferred choice, "
              "suspend gate. Non-trivial = spec has a halting failure beside unfinished siblings, an early-firing join, a synthetic child, "
              "a jump, a gate, a mutex or a choice group AND the schedule is not plain FIFO. Distinct = hash of the case.")
    c.assumptions += [
        "liveness is decided as bounded liveness: every deliverable message is delivered (delays fast-forwarded) until none is left",
        "fairness rule of DESIGN 2.5 for self re-queuing wait messages; STABILIZE_MAX_STAGE_WAIT_RETRIES=24",
        "single worker thread; SQLite backend only",
    ]
    for cls in ("kind:racy-fail", "kind:early-join", "feat:before-child", "feat:after-child", "feat:onfail-child", "feat:failing-child",
                "feat:predeclared-child", "feat:parallel-children", "feat:continue-on-failure-child", "feat:stopped-failure", "feat:disabled", "feat:jump", "feat:suspend", "inj:dup-startstage", "paused"):
        if c.classes.get(cls, 0) == 0:
            c.harness_error(f"generator starvation: class {cls} never produced")


def replay(c: Campaign, rec: dict[str, Any]) -> int:
    case = rec["case"]
    if "pause_at" in case["schedule"]:
        regress(c, rec)
        for b, v in c.buckets.items():
            print(f"VIOLATION property={c.prop} replay=given\n  bucket: {b}\n  detail: {v['detail']}")
        if not c.buckets:
            print("replay: no violation")
        return 1 if c.buckets else 0
    run_ = Run(case["spec"], make_schedule(case["schedule"]))
    for at, ref in case["schedule"].get("dup_startstage", []):
        run_.injections.setdefault(at, []).append(inj_start_stage(ref))
    run_.drain()
    judge(c, case["spec"], run_, case["schedule"])
    if c.buckets:
        for b, v in c.buckets.items():
            print(f"VIOLATION property={c.prop} replay=given\n  bucket: {b}\n  detail: {v['detail']}")
        return 1
    print("replay: no violation")
    return 0


def regress(c: Campaign, rec: dict[str, Any]) -> None:
    case = rec["case"]
    if "pause_at" in case["schedule"]:
        sd = {k: v for k, v in case["schedule"].items() if k != "pause_at"}
        pause_case(c, case["spec"], sd, case["schedule"]["pause_at"], ["regression"])
        return
    run_ = Run(case["spec"], make_schedule(case["schedule"]))
    for at, ref in case["schedule"].get("dup_startstage", []):
        run_.injections.setdefault(at, []).append(inj_start_stage(ref))
    run_.drain()
    judge(c, case["spec"], run_, case["schedule"], ["regression"])
