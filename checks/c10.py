"""C10 - recovery sweeps: harmless on healthy workflows, idempotent after a crash.

Domain: spec x delivery schedule x sweep positions - one or two consecutive recovery sweeps before EVERY
delivery position of the FIFO run (exhaustive), a sweep before every step (the extreme case), and random
position sets on shuffled schedules (reordering / lost acks / hold-back: a sweep's extra messages may overtake
the original ones); after a crash: one sweep versus two at every commit point.
Oracle, healthy run: judged against the sweep-free reference semantics - on confluent specs the outcome
signature including EXACT execution counts and the data every execution saw equals the FIFO sweep-free run;
on racy specs the validity predicate plus "no task executes more often than its script allows".
Crash: signature(recover x2) == signature(recover x1) from the same crash state.
"""

from __future__ import annotations

from typing import Any

from hypothesis import HealthCheck, Phase, given, seed as hseed, settings, strategies as st

from vlib import oracles
from vlib.campaign import Campaign
from vlib.engine_d import Run, inj_recover
from vlib.engine_k import crash_states, recover_from
from vlib.par import run_shards
from vlib.sched import make_schedule, reference_outcome, schedule_desc
from vlib.spec import core_corpus, dag_spec, features, loop_spec, syn_confluent_spec

LEVEL = "exploration"
SKIP = ("gate", "choice")


def judge(c: Campaign, spec: dict[str, Any], run: Run, desc: Any, extra=()) -> None:
    got = run.outcome()
    stuck = oracles.diagnose_stuck(run)
    results = run.__dict__.get("recovery_results", [])
    requeued = sum(getattr(r, "stages_requeued", 0) for r in results)
    ref = reference_outcome(spec)
    kind = oracles.classify(spec)
    viol = oracles.compare_outcome(spec, ref, got)
    if run.step_bound_hit:
        viol.append(("no-quiescence", f"still deliverable messages after {run.steps} deliveries"))
    case = {"spec": spec, "schedule": desc}
    from checks.c03 import split_skipped

    ran_skipped = sorted(b for b in split_skipped(spec) if any(k.startswith(b + ".t") for k in got["counts"]))
    if ran_skipped:
        # one root cause: a branch the OR-split did not activate was started anyway (its SkipStage was still pending when a sweep
        # found it 'NOT_STARTED with its upstream done' and queued a StartStage that overtook the SkipStage)
        c.violation("or-split-skipped-branch-ran", case, f"branch(es) {ran_skipped} executed although the OR-split did not activate them; "
                    + "; ".join(d for _c, d in viol)[:200], sig={"features": features(spec)})
        viol = []
    diag = stuck if got["workflow"] not in oracles.COMPLETE and ref["workflow"] in oracles.COMPLETE else ""
    if diag and viol:
        c.violation(f"stuck|{diag}", case, "; ".join(d for _c, d in viol)[:400], sig={"features": features(spec)})
    else:
        for clause, detail in viol:
            feat = "or-split" if "or-split" in features(spec) else ("synthetic" if {"before-child", "after-child"} & set(features(spec)) else "plain")
            c.violation(f"{clause}|{kind}|{feat}", case, detail, sig={"features": features(spec)})
    nontrivial = requeued > 0
    c.case(("c10", spec, desc), nontrivial, [f"kind:{kind}"] + [f"feat:{f}" for f in features(spec)] + list(extra)
           + (["sweep-requeued"] if requeued else ["sweep-noop"]),
           sample={"spec": spec["name"], "schedule": desc, "sweeps": len(results), "stages_requeued": requeued,
                   "workflow": got["workflow"]} if nontrivial and len(str(desc)) < 600 else None)


def run_case(spec: dict[str, Any], sd: dict[str, Any], sweeps: list[list[int]]) -> Run:
    run = Run(spec, make_schedule(sd))
    for at, times in sweeps:
        run.injections.setdefault(at, []).append(inj_recover(times))
    return run.drain()


def extra_specs() -> dict[str, dict[str, Any]]:
    from vlib.spec import make_loop

    from vlib.spec import ok, stage

    return {"router_multi": make_loop("router_multi", 1, None), "side_target": make_loop("side_target", 1, None),
            # a stage that jumps back to itself and has an after-stage declared with the workflow
            "selfloop_after": {"name": "selfloop_after", "stages": [stage("p", [], [{"b": "jump", "to": "p", "j": 1}], syn={"before": [], "after": ["ok"], "parallel": False, "pre": True}),
                                                                     stage("z", ["p"], [ok()])], "loop": {"shape": "self", "j": 1}}}


def shard_positions(prop: str, tier: str, seed: int, name: str) -> dict[str, Any]:
    """One and two sweeps before every position of the FIFO run; a sweep before every step; the same under two hold-back schedules."""
    c = Campaign(prop, tier, seed, LEVEL)
    spec = extra_specs()[name] if name in extra_specs() else core_corpus()[name]
    base = Run(spec).drain()
    n = base.steps
    for sd in ({"style": "fifo", "d": [], "R": 2},
               {"style": "hold", "d": [], "R": 2, "hold": "SkipStage", "hold_for": 6},
               {"style": "hold", "d": [], "R": 2, "hold": "CompleteTask", "hold_for": 4},
               {"style": "hold", "d": [], "R": 2, "hold": "JumpToStage", "hold_for": 5},
               # the sweep runs before StartWorkflow has been handled, and what it queues overtakes the StartWorkflow
               {"style": "hold", "d": [], "R": 2, "hold": "StartWorkflow", "hold_for": 30}):
        for at in range(n + 1):
            for times in (1, 2):
                if sd["style"] != "fifo" and times == 2:
                    continue
                sweeps = [[at, times]]
                run = run_case(spec, sd, sweeps)
                judge(c, spec, run, {**sd, "sweeps": sweeps}, ["positions", f"style:{sd['style']}"])
        sweeps = [[p, 1] for p in range(n + 1)]
        run = run_case(spec, sd, sweeps)
        judge(c, spec, run, {**sd, "sweeps": "before-every-step"}, ["every-step", f"style:{sd['style']}"])
    return c.export()


def shard_random(prop: str, tier: str, seed: int, n: int) -> dict[str, Any]:
    c = Campaign(prop, tier, seed, LEVEL)
    spec_st = st.one_of(
        st.sampled_from([v for k, v in core_corpus().items() if k not in SKIP]),
        dag_spec(max_stages=6),
        dag_spec(max_stages=5, allow=("multi", "poll"), joins=("AND", "DISC", "NOFM")),
        loop_spec(max_j=2),
        syn_confluent_spec(),
    )

    @hseed(seed)
    @settings(max_examples=n, database=None, deadline=None, derandomize=False, suppress_health_check=list(HealthCheck),
              phases=[Phase.generate], report_multiple_bugs=False)
    @given(spec_st, schedule_desc(), st.lists(st.tuples(st.integers(0, 60), st.integers(1, 2)).map(list), min_size=1, max_size=6))
    def t(spec, sd, sweeps):
        run = run_case(spec, sd, sweeps)
        judge(c, spec, run, {**sd, "sweeps": sweeps}, ["random", f"style:{sd['style']}"])

    t()
    return c.export()


def shard_crash_idempotence(prop: str, tier: str, seed: int, name: str) -> dict[str, Any]:
    """recover x1 versus recover x2 from every crash state."""
    c = Campaign(prop, tier, seed, LEVEL)
    spec = core_corpus()[name]
    states = crash_states(spec)
    step = 1 if tier == "thorough" else max(1, len(states) // 40)
    for cs in states[::step]:
        one = recover_from(spec, cs, recoveries=1)
        two = recover_from(spec, cs, recoveries=2)
        a, b = one["outcome"], two["outcome"]
        diffs = [k for k in ("workflow", "stages", "counts", "seen", "queue", "dlq") if a[k] != b[k]]
        case = {"spec": spec, "crash_commit": cs["index"], "kind": "crash-idempotence"}
        if diffs:
            c.violation(f"recover-twice-differs|{'+'.join(diffs)}", case,
                        f"after crash at commit {cs['index']}: one sweep -> {a['workflow']} {a['counts']}; two sweeps -> {b['workflow']} {b['counts']}")
        requeued = sum(r[1] for r in two["recovery"])
        c.case(("c10k", name, cs["index"]), requeued > 0, ["crash-idempotence"] + [f"feat:{f}" for f in features(spec)],
               sample={"spec": name, "crash_after_commit": cs["index"], "recovery_x2": two["recovery"]} if requeued and cs["index"] % 29 == 7 else None)
    return c.export()


def shard_concurrent(prop: str, tier: str, seed: int, name: str, held: str, P: int) -> dict[str, Any]:
    """A recovery sweep running in its own thread while a worker handles one message (statement-level interleaving)."""
    import json as _json

    from vlib import tasks
    from vlib.engine_d import Schedule
    from vlib.engine_i import Sched, explore, handle_one
    from vlib.world import LONG_AGO, World

    c = Campaign(prop, tier, seed, LEVEL)
    spec = core_corpus()[name]

    def key(row: dict[str, Any]) -> str:
        try:
            p_ = _json.loads(row["payload"])
        except Exception:  # noqa: BLE001
            p_ = {}
        return f"{row['type']}:{(p_.get('stage_id') or '').replace('W1-', '')}"

    tasks.reset_ledger()
    run0 = Run(spec, Schedule())
    guard = 0
    while guard < 400:
        guard += 1
        rows = [r for r in run0.eligible() if key(r) != held]
        if not rows or held in [key(r) for r in run0.w.pending()] and key(rows[0]) != held and len([r for r in run0.w.pending() if key(r) == held]) >= 1:
            break
        run0.deliver(rows[0])
    if held not in [key(r) for r in run0.w.pending()]:
        c.count("concurrent-sweep:scenario-not-reached")
        return c.export()
    prep = {"blob": run0.w.snapshot(), "ledger": tasks.ledger_snapshot(), "steps": run0.steps}

    def mk() -> World:
        tasks.reset_ledger()
        tasks.LEDGER.extend(dict(e) for e in prep["ledger"])
        w = World(restore=prep["blob"], share_connection=True)
        for r in w.pending():
            due = LONG_AGO if key(r) == held else "2100-01-01T00:00:00+00:00"
            w._harness_sql("UPDATE queue_messages SET deliver_at = ?, locked_until = NULL WHERE id = ?", (due, r["id"]))
        w.set_ctx(prep["steps"] + 1, "concurrent")
        return w

    def sweeper(s: Sched, i: int) -> None:
        s.labels[i] = "Recovery"
        s.w.processor.run_recovery()

    def progs(w: World):
        return [handle_one(), sweeper]

    def j(w: World, s: Sched, pre: dict[int, int]) -> None:
        run = Run(spec, Schedule(), world=w, max_steps=2000)
        run.steps = 1000
        run.drain()
        before = set(c.buckets)
        judge(c, spec, run, {"style": "concurrent-sweep", "held": held, "preemptions": {str(k): v for k, v in sorted(pre.items())}, "d": []},
              ["concurrent-sweep", f"held:{held.split(':')[0]}"])
        # where did the sweep read the stage? between the StartStage handler's claim commit and its plan commit the stage is
        # RUNNING with untouched tasks - the state recovery mistakes for 'start the first task' (finding F1's window, live)
        worker_commits = 0
        window = "concurrent-sweep"
        for _idx, tid, label, _r in s.trace:
            if tid == 0 and label == "commit":
                worker_commits += 1
            # any read of the sweep that falls between the claim commit (2nd commit of the worker: poll claim, stage claim)
            # and the plan commit (3rd) sees the claimed-but-unplanned stage; with more than two pre-emptions the sweep's
            # first stage read may lie earlier and a later one (tasks, synthetic stages) inside the window
            if tid == 1 and label.startswith("sql:SELECT") and held.startswith("StartStage") and worker_commits == 2:
                window = "sweep-in-claim-plan-window"
                break
        for b in set(c.buckets) - before:
            c.buckets[f"{b}|{window}"] = c.buckets.pop(b)
        if s.errors:
            c.violation("concurrent-sweep-raised", {"spec": spec, "held": held, "preemptions": {str(k): v for k, v in pre.items()}}, f"{s.errors[:2]}")

    n = explore(mk, progs, j, max_preemptions=P)
    c.extra[f"schedules:concurrent-sweep:{name}:{held}"] = n
    return c.export()


def _dispatch(fn, a):  # noqa: ANN001
    return fn(*a)


def run(c: Campaign, jobs: int) -> None:
    quick = c.tier == "quick"
    names = [k for k in core_corpus() if k not in SKIP]
    pos_names = names if not quick else ["diamond", "multitask", "terminal_sibling", "cof", "poll", "transient", "selfloop", "loop3", "fwdjump",
                                          "firstof", "quorum", "orsplit", "skip", "before", "after", "mutex", "built"]
    pos_names = list(pos_names) + ["router_multi", "side_target", "selfloop_after"]
    args = [(shard_positions, (c.prop, c.tier, c.seed, n_)) for n_ in pos_names]
    n = 1200 if quick else 40000
    shards = max(1, jobs)
    args += [(shard_random, (c.prop, c.tier, c.seed * 1000 + k, max(1, n // shards))) for k in range(shards)]
    crash_names = ["diamond", "multitask", "cof", "poll", "transient", "loop2", "orsplit", "before", "mutex", "firstof"]
    args += [(shard_crash_idempotence, (c.prop, c.tier, c.seed, n_)) for n_ in (crash_names if not quick else crash_names[:8])]
    for name, held in (("diamond", "StartStage:d"), ("multitask", "StartTask:a"), ("multitask", "RunTask:a"), ("diamond", "CompleteStage:b"),
                       ("multitask", "CompleteTask:a"), ("orsplit", "CompleteStage:x"), ("before", "StartStage:p")):
        args.append((shard_concurrent, (c.prop, c.tier, c.seed, name, held, 2 if quick else 3)))
    run_shards(c, _dispatch, args, jobs)
    c.exhaustive_parts.append("a sweep thread concurrent with one handler (7 handler kinds): all schedules with <= 2 pre-emptions (thorough 3)")
    c.exhaustive_parts.append(f"one and two sweeps before every delivery position of the FIFO run (and one sweep per position under two hold-back schedules) "
                              f"of {len(pos_names)} corpus specs; sweep before every step")
    c.rule = ("case = (spec, schedule, sweep positions) or (spec, crash state, sweep once vs twice). Non-trivial = a sweep found unfinished work and pushed "
              ">= 1 message (stages_requeued > 0). Distinct = hash of the case.")
    c.assumptions += [
        "healthy runs are judged against the sweep-free FIFO run (sweeps add messages, so 'the same schedule without sweeps' is not well defined)",
        "a sweep concurrent with a handler is explored under the interleaving engine for 7 fixed (spec, in-flight message) scenarios within a pre-emption bound",
        "single worker thread; SQLite only",
    ]
    for cls in ("sweep-requeued", "feat:or-split", "feat:jump", "feat:before-child", "crash-idempotence", "every-step", "style:hold", "concurrent-sweep"):
        if c.classes.get(cls, 0) == 0:
            c.harness_error(f"generator starvation: class {cls} never produced")


def regress(c: Campaign, rec: dict[str, Any]) -> None:
    case = rec["case"]
    sd = dict(case["schedule"])
    sweeps = sd.pop("sweeps", [])
    if sweeps == "before-every-step":
        base = Run(case["spec"]).drain()
        sweeps = [[p, 1] for p in range(base.steps + 1)]
    run_ = run_case(case["spec"], sd, sweeps)
    judge(c, case["spec"], run_, case["schedule"], ["regression"])


def replay(c: Campaign, rec: dict[str, Any]) -> int:
    regress(c, rec)
    for b, v in c.buckets.items():
        print(f"VIOLATION property={c.prop} replay=given\n  bucket: {b}\n  detail: {v['detail']}")
    if not c.buckets:
        print("replay: no violation")
    return 1 if c.buckets else 0
