"""C09 - a message whose handling committed is never handled again, even after restart.

(a) In-memory duplicate filter: Hypothesis RuleBasedStateMachine over mark_seen / hydrate / reset / maybe_seen
    with arbitrary id strings and arbitrary (expected_items, false_positive_rate) against a set model: an id the
    filter was told about is never reported new until the next reset(); authoritative is False initially and
    after reset(), True after hydrate().
(b) Engine: a workflow is run with every ack withheld; each already-handled message is delivered again at later
    points - in the same process, after a forced rotation of the filter, after a process restart, and to a peer
    worker whose filter was hydrated before the message was handled - with the negative-cache option off and on.
    Oracle: when the message's processed record is durable at redelivery time, the handler is not invoked, no
    task executes, and the final outcome equals the run without redeliveries.
"""

from __future__ import annotations

import json
from typing import Any

from hypothesis import HealthCheck, Phase, given, seed as hseed, settings, strategies as st
from hypothesis.stateful import RuleBasedStateMachine, initialize, invariant, rule, run_state_machine_as_test

from vlib import tasks
from vlib.campaign import Campaign
from vlib.engine_d import Run, Schedule, _is_wait
from vlib.par import run_shards
from vlib.sched import reference_outcome
from vlib.spec import core_corpus, dag_spec, features, loop_spec
from vlib.world import World

LEVEL = "exploration"

IDS = st.one_of(st.text(max_size=12), st.integers(0, 10**6).map(str), st.uuids().map(str),
                st.sampled_from(["", "0", "1", "01", "1 ", "a", "A", "é", "\x00", "x" * 3000]))


def bloom_machine(c: Campaign):
    from stabilize.queue.dedup import BloomDeduplicator

    class BloomModel(RuleBasedStateMachine):
        def __init__(self) -> None:
            super().__init__()
            self.model: set[str] = set()
            self.auth = False
            self.f = None
            self.ops = 0
            self.after_reset = False

        @initialize(n=st.integers(1, 5000), p=st.sampled_from([0.5, 0.1, 0.01, 0.001, 1e-6]))
        def init(self, n, p):
            self.f = BloomDeduplicator(expected_items=n, false_positive_rate=p)
            self.params = (n, p)
            if self.f.authoritative:
                c.violation("bloom:authoritative-initially", {"kind": "bloom", "params": self.params}, "a fresh filter claims authority")

        @rule(x=IDS)
        def mark(self, x):
            self.f.mark_seen(x)
            self.model.add(x)
            self.ops += 1

        @rule(xs=st.lists(IDS, max_size=8))
        def hydrate(self, xs):
            self.f.hydrate(xs)
            self.model |= set(xs)
            self.auth = True
            self.ops += 1
            if not self.f.authoritative:
                c.violation("bloom:not-authoritative-after-hydrate", {"kind": "bloom", "params": self.params}, "hydrate() did not grant authority")

        @rule()
        def reset(self):
            self.f.reset()
            self.model.clear()
            self.auth = False
            self.after_reset = True
            self.ops += 1
            if self.f.authoritative:
                c.violation("bloom:authoritative-after-reset", {"kind": "bloom", "params": self.params}, "reset() kept authority")

        @rule(x=IDS)
        def query(self, x):
            r = self.f.maybe_seen(x)
            if x in self.model and not r:
                c.violation("bloom:false-negative", {"kind": "bloom", "params": self.params, "id": x[:40]},
                            f"maybe_seen({x[:40]!r}) is False although the filter was told about it")
            self.ops += 1

        @invariant()
        def no_false_negative(self):
            if self.f is None:
                return
            for x in self.model:
                if not self.f.maybe_seen(x):
                    c.violation("bloom:false-negative", {"kind": "bloom", "params": self.params, "id": x[:40]},
                                f"maybe_seen({x[:40]!r}) is False although the filter was told about it")
                    break
            if self.f.authoritative != self.auth:
                c.violation("bloom:authority-flag", {"kind": "bloom", "params": self.params}, f"authoritative={self.f.authoritative}, model says {self.auth}")

        def teardown(self):
            c.case(("bloom", self.params, self.ops, len(self.model)), self.after_reset or self.auth, ["bloom-machine"],
                   sample={"filter_params": self.params, "operations": self.ops, "ids_known_at_end": len(self.model)} if self.ops > 5 else None)

    return BloomModel


def shard_bloom(prop: str, tier: str, seed: int, n: int) -> dict[str, Any]:
    c = Campaign(prop, tier, seed, LEVEL)
    m = hseed(seed)(bloom_machine(c))
    run_state_machine_as_test(m, settings=settings(max_examples=n, stateful_step_count=40, database=None, deadline=None,
                                                   suppress_health_check=list(HealthCheck), phases=[Phase.generate]))
    return c.export()


# --------------------------------------------------------------------------- engine part

def _swap_dedup(d) -> None:  # noqa: ANN001
    import stabilize.queue.dedup as dd

    dd._deduplicator = d


def engine_case(c: Campaign, spec: dict[str, Any], mode: str, trust: bool, picks: list[int], cap: int = 2000) -> None:
    """Run ``spec`` with every ack withheld; after each delivery redeliver earlier messages according to ``mode``."""
    from stabilize.queue.dedup import BloomDeduplicator, get_deduplicator

    ref = reference_outcome(spec)
    tasks.reset_ledger()
    run = Run(spec, Schedule(), trust_negative=trust, bloom_items=cap)
    w = run.w
    handled: list[dict[str, Any]] = []
    case = {"kind": "engine", "spec": spec, "mode": mode, "trust_negative": trust, "picks": picks, "cap": cap}
    redeliveries = 0
    checked = 0
    peer_dedup = None
    pi = 0
    steps = 0
    aged = [0]
    fault_done: set[str] = set()

    def processed(row_id: int) -> bool:
        return w.scalar("SELECT 1 FROM processed_messages WHERE message_id = ?", (str(row_id),)) is not None

    def redeliver(row: dict[str, Any]) -> None:
        nonlocal w, redeliveries, checked, peer_dedup
        if w.scalar("SELECT 1 FROM queue_messages WHERE id = ?", (row["id"],)) is None:
            return
        durable = processed(row["id"])
        calls_before = sum(1 for mid, _t in w.handler_calls if mid == str(row["id"]))
        led_before = len(tasks.LEDGER)
        own = get_deduplicator()
        if mode == "rotate":
            own.reset()
        elif mode == "rehydrate":
            # what _handle_message does when the filter is due for rotation
            own.reset()
            w.processor._hydrate_deduplicator()
        elif mode == "retention":
            # the processor's retention sweep runs while the record is still inside the retention window (its age is set to
            # 10-94 % of processed_messages_max_age_hours by moving processed_at back, in the format the engine writes)
            pk = picks[(pi + redeliveries) % len(picks)] if picks else 5
            # the configured default and three other settings of processed_messages_max_age_hours (the defect this mode was built for
            # depends on whether the cutoff falls on the record's calendar day, so one window length would leave hours of the day blind)
            # (one setting per case: a record aged under a long window would be legitimately expired under a shorter one)
            ma = [float(getattr(w.processor.config, "processed_messages_max_age_hours", 24.0)), 1.0, 6.0, 72.0][(sum(picks) + len(picks)) % 4]
            frac = (10 + (pk * 9) % 85) / 100.0
            minutes = max(1, int(ma * 60 * frac))
            w._harness_sql("UPDATE processed_messages SET processed_at = datetime('now', ?) WHERE message_id = ?", (f"-{minutes} minutes", str(row["id"])))
            w.store.cleanup_old_processed_messages(max_age_hours=ma)
        elif mode == "restart":
            blob = w.snapshot()
            calls = list(w.handler_calls)
            w2 = World(restore=blob, trust_negative=trust, bloom_items=cap)
            w2.handler_calls.extend(calls)
            run.w = w2
            w = w2
        elif mode == "peer":
            if peer_dedup is None:
                # the peer worker was started (and hydrated) before anything was processed
                peer_dedup = BloomDeduplicator(expected_items=2000)
                peer_dedup.hydrate([])
            _swap_dedup(peer_dedup)
        try:
            w.make_only_due(row["id"])
            m = w.queue.poll_one()
            if m is not None:
                w.set_ctx(run.steps, "redelivery:" + row["type"])
                try:
                    w.processor._handle_message(m)
                except Exception as e:  # noqa: BLE001
                    run.handler_errors.append(f"redelivery {row['type']}: {type(e).__name__}: {e}")
        finally:
            if mode == "peer":
                _swap_dedup(own)
        redeliveries += 1
        if durable:
            checked += 1
            calls_after = sum(1 for mid, _t in w.handler_calls if mid == str(row["id"]))
            if calls_after > calls_before:
                c.violation(f"handler-ran-again|{mode}|trust={'on' if trust else 'off'}", case,
                            f"{row['type']} (message {row['id']}) had a durable processed record but its handler ran again on redelivery ({mode})")
            if len(tasks.LEDGER) > led_before:
                c.violation(f"task-executed-on-redelivery|{mode}|trust={'on' if trust else 'off'}", case,
                            f"redelivery of {row['type']} (message {row['id']}) executed a task")

    while steps < 400:
        rows = [r for r in w.pending() if r["id"] not in {h["id"] for h in handled}]
        if not rows:
            break
        # the fairness rule of engine D (DESIGN 2.5): a self re-queuing wait message (CompleteWorkflow / StartStage poll with a
        # retry count) is delivered only when nothing else is: without real delays it would otherwise burn its retry budget
        # while the workflow is still making progress
        busy = [r for r in rows if not _is_wait(r)]
        row = (busy or rows)[0]
        run.w = w
        run.steps += 1
        steps += 1
        w.set_ctx(run.steps, row["type"])
        w.make_only_due(row["id"])
        m = w.queue.poll_one()
        if m is None:
            break
        if mode == "age" and picks and picks[(pi + steps) % len(picks)] % 2 == 1:
            # a day passes for the in-memory filter: the processor's own rotation (age > 24 h) fires INSIDE the handling of this message
            get_deduplicator()._creation_time -= 90000.0
            aged[0] += 1
        faulted = False
        if mode == "fault" and str(row["id"]) not in fault_done and picks and picks[(pi + steps) % len(picks)] % 2 == 0:
            # the handler commits (effects + processed record) and then fails: the processor reschedules the message, and the
            # redelivery must find the record
            w.fault_after.add(str(row["id"]))
            fault_done.add(str(row["id"]))
            faulted = True
        calls_before = sum(1 for mid, _t in w.handler_calls if mid == str(row["id"]))
        had_record = processed(row["id"])
        try:
            w.processor._handle_message(m)
        except Exception as e:  # noqa: BLE001
            run.handler_errors.append(f"{row['type']}: {type(e).__name__}: {e}")
            w.queue.reschedule(m, w.processor.config.retry_delay)
            if faulted:
                c.count("post-commit-faults-injected")
            continue
        if had_record and str(row["id"]) in fault_done and sum(1 for mid, _t in w.handler_calls if mid == str(row["id"])) > calls_before:
            checked += 1
            c.violation(f"handler-ran-again|{mode}|trust={'on' if trust else 'off'}", case,
                        f"{row['type']} (message {row['id']}) committed its effects and processed record, its handler then failed; on redelivery the handler ran again")
        handled.append(row)  # ack withheld
        # redeliver some earlier messages now
        k = picks[pi % len(picks)] if picks else 0
        pi += 1
        for j in range(k % 3):
            target = handled[(k // 3 + j * 7) % len(handled)]
            redeliver(target)
    # finally acknowledge everything and let the run finish
    for h in handled:
        w._harness_sql("DELETE FROM queue_messages WHERE id = ?", (h["id"],))
    run.w = w
    run.drain()
    got = run.outcome()
    from vlib import oracles

    for clause, detail in oracles.compare_outcome(spec, ref, got):
        if mode == "fault" and clause == "extra-execution":
            # a handler whose commit does not carry the processed record (a poll / transient retry re-queue) is handled again after
            # the injected failure, which is at-least-once delivery at work and outside this property (it speaks of effects
            # committed together with the record); the per-message clause above judges the messages that did have a record
            c.count("fault:re-execution-of-a-step-without-record")
            continue
        c.violation(f"outcome-changed:{clause}|{mode}|trust={'on' if trust else 'off'}", case, detail)
    over = (w.scalar("SELECT COUNT(*) FROM processed_messages") or 0) > cap
    c.case(("c09", spec, mode, trust, picks, cap), checked > 0 and mode != "same",
           [f"mode:{mode}", f"trust:{'on' if trust else 'off'}", "processed-records-exceed-filter-capacity" if over else "filter-capacity-not-exceeded"] + [f"feat:{f}" for f in features(spec)],
           sample={"spec": spec["name"], "mode": mode, "trust_negative": trust, "redeliveries": redeliveries, "with_durable_record": checked}
           if checked > 3 else None)
    c.count("redeliveries-checked", checked)
    if aged[0]:
        c.count("rotations-by-age-inside-a-handler", aged[0])


def shard_engine(prop: str, tier: str, seed: int, n: int) -> dict[str, Any]:
    c = Campaign(prop, tier, seed, LEVEL)
    spec_st = st.one_of(st.sampled_from([v for k, v in core_corpus().items() if k not in ("gate", "choice", "firstof", "quorum")]),
                        dag_spec(max_stages=5, allow=("multi", "fail", "cof", "poll", "skip")), loop_spec(max_j=2))

    @hseed(seed)
    @settings(max_examples=n, database=None, deadline=None, derandomize=False, suppress_health_check=list(HealthCheck),
              phases=[Phase.generate], report_multiple_bugs=False)
    @given(spec_st, st.sampled_from(["same", "rotate", "rehydrate", "restart", "peer", "age", "retention", "fault"]), st.booleans(), st.lists(st.integers(0, 40), min_size=1, max_size=12),
           st.one_of(st.just(2000), st.integers(1, 40)))
    def t(spec, mode, trust, picks, cap):
        if mode == "peer" and trust:
            # documented precondition of dedup_trust_negative_cache: this process is the ONLY writer of processed_messages
            c.count("excluded:peer-worker-with-negative-cache-on")
            return
        engine_case(c, spec, mode, trust, picks, cap)

    t()
    return c.export()


def shard_grid(prop: str, tier: str, seed: int, name: str) -> dict[str, Any]:
    """Every handled message redelivered right after every later step, all four modes, both option values."""
    c = Campaign(prop, tier, seed, LEVEL)
    spec = core_corpus()[name]
    for mode in ("same", "rotate", "rehydrate", "restart", "peer", "age", "retention", "fault"):
        for trust in (False, True):
            if mode == "peer" and trust:
                continue
            for cap in (2000, 6):  # 6: fewer than the processed records of any corpus spec, so the filter must stay advisory
                engine_case(c, spec, mode, trust, [4, 7, 1, 5, 8, 2], cap)
    return c.export()


def _dispatch(fn, a):  # noqa: ANN001
    return fn(*a)


def run(c: Campaign, jobs: int) -> None:
    quick = c.tier == "quick"
    shards = max(1, jobs)
    n_bloom = 1600 if quick else 40000
    n_eng = 480 if quick else 12000
    args = [(shard_bloom, (c.prop, c.tier, c.seed * 1000 + k, max(1, n_bloom // shards))) for k in range(shards)]
    args += [(shard_engine, (c.prop, c.tier, c.seed * 1000 + 300 + k, max(1, n_eng // shards))) for k in range(shards)]
    args += [(shard_grid, (c.prop, c.tier, c.seed, name)) for name in ("chain", "diamond", "multitask", "poll", "selfloop", "terminal", "skip", "cof")]
    run_shards(c, _dispatch, args, jobs)
    c.rule = ("bloom case = one state-machine run (<= 40 operations on a filter with drawn parameters) judged after every step against a set model; engine "
              "case = (spec, redelivery mode, negative-cache option, redelivery picks). Non-trivial = a bloom history containing a reset or hydrate; an "
              "engine case in which >= 1 redelivery of a message with a durable processed record happened after a rotation / restart / on a peer worker.")
    c.assumptions += [
        "'peer worker' is modelled in one process by swapping the module-global filter for one hydrated before anything was processed",
        "'restart' = World(restore=<durable bytes>): all engine singletons dropped, filter re-hydrated by the new processor",
        "only messages whose processed record is durable at redelivery time are judged",
        "peer worker + dedup_trust_negative_cache=True is excluded: the option's documentation requires a single writer of processed_messages",
        "SQLite backend only",
    ]
    for cls in ("mode:rotate", "mode:restart", "mode:peer", "mode:retention", "mode:fault", "trust:on", "trust:off", "bloom-machine"):
        if c.classes.get(cls, 0) == 0:
            c.harness_error(f"generator starvation: class {cls} never produced")


def replay(c: Campaign, rec: dict[str, Any]) -> int:
    case = rec["case"]
    if case.get("kind") != "engine":
        print("replay of bloom cases: re-run the campaign with the same VERIF_SEED")
        return 2
    engine_case(c, case["spec"], case["mode"], case["trust_negative"], case["picks"])
    for b, v in c.buckets.items():
        print(f"VIOLATION property={c.prop} replay=given\n  bucket: {b}\n  detail: {v['detail']}")
    if not c.buckets:
        print("replay: no violation")
    return 1 if c.buckets else 0
