"""C13 - events and the state they describe commit together.

Domain: workloads run with the event store in the same database x EVERY commit point of the run (crash
state = the durable bytes after that commit) and the final state after restart + recovery from a sample of
those crash states; plus injected failures inside completion transactions at every completion step of the
run: an exception raised right after the event append, and an optimistic-lock conflict forced between the
handler's read and its write.
Oracle: inside every durable snapshot, per entity: number of stage.completed|failed|skipped events recorded
by the CompleteStage handler == number of durable transitions of that stage into a complete status written
while handling CompleteStage; likewise task.completed|failed vs transitions written by CompleteTask with a
non-SKIPPED status; the n-th event carries the n-th transition's status.  A synchronous bus subscriber is
called only outside a transaction, only with events that are durable at that moment, never for an event that
was rolled back; sequence numbers are unique and strictly increasing, also across restarts.
"""

from __future__ import annotations

import json
import sqlite3
from typing import Any

from hypothesis import HealthCheck, Phase, given, seed as hseed, settings, strategies as st

from vlib import oracles, tasks
from vlib.campaign import Campaign
from vlib.engine_d import Run, Schedule
from vlib.engine_k import crash_states, recover_from
from vlib.par import run_shards
from vlib.sched import make_schedule, schedule_desc
from vlib.spec import core_corpus, dag_spec, features, loop_spec, syn_confluent_spec

LEVEL = "fault_enumeration"

INJECTED_TEXT = "injected failure right after the event append"
STAGE_EVENTS = ("stage.completed", "stage.failed", "stage.skipped")
TASK_EVENTS = ("task.completed", "task.failed")


def snapshot_invariant(con: sqlite3.Connection) -> list[tuple[str, str]]:
    """Count equality events <-> transitions inside one durable state."""
    out: list[tuple[str, str]] = []
    ev_stage: dict[str, list[str]] = {}
    for eid, et, data in con.execute(
            "SELECT entity_id, event_type, data FROM events WHERE source_handler = 'CompleteStageHandler' AND event_type IN (?,?,?) ORDER BY sequence",
            STAGE_EVENTS):
        try:
            stt = json.loads(data).get("status")
        except Exception:  # noqa: BLE001
            stt = None
        ev_stage.setdefault(eid, []).append(stt or ("SKIPPED" if et == "stage.skipped" else "?"))
    tr_stage: dict[str, list[str]] = {}
    for ident, new in con.execute(
            "SELECT id, new FROM v_audit WHERE kind = 'stage' AND writer = 'CompleteStage' AND old IS NOT NULL "
            "AND new IN ('SUCCEEDED','FAILED_CONTINUE','TERMINAL','CANCELED','STOPPED','SKIPPED') ORDER BY seq"):
        tr_stage.setdefault(ident, []).append(new)
    # the CompleteStage handler's own error path (a non-transient exception inside the completion) marks the stage TERMINAL
    # without an event; that is not the "regular completion step" and is recognisable by the error text it stores
    fallback = {r[0] for r in con.execute("SELECT id FROM stage_executions WHERE context LIKE ?", (f"%{INJECTED_TEXT}%",))}
    for ident in sorted((set(ev_stage) | set(tr_stage)) - fallback):
        e, t = ev_stage.get(ident, []), tr_stage.get(ident, [])
        if len(e) > len(t):
            out.append(("phantom-stage-event", f"stage {ident}: {len(e)} completion event(s) but {len(t)} durable completion(s) by CompleteStage"))
        elif len(e) < len(t):
            out.append(("missing-stage-event", f"stage {ident}: {len(t)} durable completion(s) by CompleteStage but {len(e)} event(s)"))
        elif [x for x in e] != t and all(x != "?" for x in e):
            out.append(("stage-event-status", f"stage {ident}: events carry {e}, transitions were {t}"))
    # stage.skipped is a completion event too ("no completion event for a stage ... whose completion was not committed"): the
    # events SkipStage wrote must not outnumber the durable NOT_STARTED -> SKIPPED transitions it committed
    ev_skip: dict[str, int] = {}
    for eid, in con.execute("SELECT entity_id FROM events WHERE source_handler = 'SkipStageHandler' AND event_type = 'stage.skipped'"):
        ev_skip[eid] = ev_skip.get(eid, 0) + 1
    tr_skip: dict[str, int] = {}
    for ident, in con.execute("SELECT id FROM v_audit WHERE kind = 'stage' AND writer = 'SkipStage' AND old IS NOT NULL AND new = 'SKIPPED' AND old != new"):
        tr_skip[ident] = tr_skip.get(ident, 0) + 1
    for ident in sorted(set(ev_skip)):
        if ev_skip[ident] > tr_skip.get(ident, 0):
            out.append(("phantom-skip-event", f"stage {ident}: {ev_skip[ident]} stage.skipped event(s) but {tr_skip.get(ident, 0)} durable skip(s) by SkipStage"))
    ev_task: dict[str, int] = {}
    for eid, in con.execute(
            "SELECT entity_id FROM events WHERE source_handler = 'CompleteTaskHandler' AND event_type IN (?,?)", TASK_EVENTS):
        ev_task[eid] = ev_task.get(eid, 0) + 1
    tr_task: dict[str, int] = {}
    for ident, in con.execute(
            "SELECT id FROM v_audit WHERE kind = 'task' AND writer = 'CompleteTask' AND old IS NOT NULL AND new != 'SKIPPED' AND old != new"):
        tr_task[ident] = tr_task.get(ident, 0) + 1
    for ident in sorted(set(ev_task) | set(tr_task)):
        e, t = ev_task.get(ident, 0), tr_task.get(ident, 0)
        if e > t:
            out.append(("phantom-task-event", f"task {ident}: {e} completion event(s) but {t} durable completion(s) by CompleteTask"))
        elif e < t:
            out.append(("missing-task-event", f"task {ident}: {t} durable completion(s) by CompleteTask but {e} event(s)"))
    seqs = [r[0] for r in con.execute("SELECT sequence FROM events ORDER BY rowid")]
    if any(b <= a for a, b in zip(seqs, seqs[1:])):
        out.append(("sequence-order", "event sequence numbers are not strictly increasing"))
    return out


def check_blob(blob: bytes) -> list[tuple[str, str]]:
    con = sqlite3.connect(":memory:")
    try:
        con.deserialize(blob)
        return snapshot_invariant(con)
    finally:
        con.close()


class Subscriber:
    """Synchronous bus subscriber that checks, at call time, that the event is durable and no transaction is open."""

    def __init__(self, run: Run) -> None:
        self.run = run
        self.calls: list[tuple[str, int]] = []
        self.violations: list[tuple[str, str]] = []

    def __call__(self, event: Any) -> None:
        w = self.run.w
        self.calls.append((event.event_id, event.sequence))
        if w.conn.in_transaction:
            self.violations.append(("subscriber-inside-transaction", f"{event.event_type.value} published while a transaction is open"))
        if w.scalar("SELECT COUNT(*) FROM events WHERE event_id = ?", (event.event_id,)) != 1:
            self.violations.append(("subscriber-saw-undurable-event", f"{event.event_type.value} ({event.event_id}) published but not in the events table"))


def attach_subscriber(run: Run) -> Subscriber:
    from stabilize.events import get_event_bus

    sub = Subscriber(run)
    get_event_bus().subscribe("verif", sub)
    return sub


def judge_final(c: Campaign, run: Run, sub: Subscriber | None, case: Any) -> None:
    for clause, detail in snapshot_invariant(run.w.conn):
        c.violation(clause + "|final", case, detail)
    if sub is not None:
        for clause, detail in sub.violations[:3]:
            c.violation(clause, case, detail)
        durable = {r[0] for r in run.w.rows("SELECT event_id FROM events")}
        ghost = [e for e, _s in sub.calls if e not in durable]
        if ghost:
            c.violation("subscriber-notified-of-rolled-back-event", case, f"{len(ghost)} published event(s) are not durable at the end")
        seqs = [s for _e, s in sub.calls]
        if len(set(seqs)) != len(seqs):
            c.violation("duplicate-sequence-published", case, "two published events share a sequence number")


# ---- crash enumeration ------------------------------------------------------------------------------

def shard_crash(prop: str, tier: str, seed: int, name: str) -> dict[str, Any]:
    c = Campaign(prop, tier, seed, LEVEL)
    spec = core_corpus()[name]
    states = crash_states(spec, events=True)
    total = len(states)
    for cs in states:
        viol = check_blob(cs["blob"])
        inf = (cs.get("inflight") or {}).get("type")
        case = {"kind": "crash", "spec": spec, "crash_commit": cs["index"], "of": total, "inflight": inf}
        for clause, detail in viol:
            c.violation(f"{clause}|during:{inf}", case, detail)
        nontrivial = inf in ("CompleteTask", "CompleteStage")
        c.case(("c13", name, cs["index"]), nontrivial, [f"feat:{f}" for f in features(spec)] + [f"inflight:{inf}", "crash-state"],
               sample={"spec": name, "crash_after_commit": cs["index"], "of": total, "in_flight": inf} if nontrivial and cs["index"] % 23 == 5 else None)
    # restart + recovery from a sample of crash states (all in the thorough tier): the final state must satisfy the invariant too
    step = 1 if tier == "thorough" else max(1, total // 12)
    for cs in states[::step]:
        rec = recover_from(spec, cs, events=True)
        w = rec["events_world"]
        for clause, detail in snapshot_invariant(w.conn):
            c.violation(f"{clause}|after-recovery", {"kind": "crash+recovery", "spec": spec, "crash_commit": cs["index"]}, detail)
        c.case(("c13r", name, cs["index"]), True, ["crash+recovery"])
    return c.export()


# ---- injected faults inside completion transactions ---------------------------------------------------

class FaultPlan:
    """Arms one fault for one delivery step."""

    def __init__(self, kind: str, at_completion: int) -> None:
        self.kind = kind
        self.at = at_completion
        self.seen_completions = 0
        self.armed = False
        self.fired = False
        self.event_inserted = False


def run_with_fault(spec: dict[str, Any], sd: dict[str, Any], plan: FaultPlan) -> tuple[Run, Subscriber]:
    run = Run(spec, make_schedule(sd), events=True)
    sub = attach_subscriber(run)
    conn = run.w.conn

    class Injected(Exception):
        pass

    def before_execute(c, sql: str) -> None:  # noqa: ANN001
        if not plan.armed or plan.fired:
            return
        head = sql.lstrip()[:40].upper()
        if plan.kind in ("transient-after-event", "error-after-event"):
            if head.startswith("INSERT INTO EVENTS"):
                plan.event_inserted = True
                return
            if plan.event_inserted and c.in_transaction:
                plan.fired = True
                if plan.kind == "transient-after-event":
                    from stabilize.errors import TransientError

                    raise TransientError(INJECTED_TEXT)  # re-raised by the handler: the processor retries the message later
                raise Injected(INJECTED_TEXT)
        elif plan.kind == "lock-conflict":
            # the transactional store_stage() probes for the row right before its versioned UPDATE; when that probe is the
            # first statement of the handler's transaction block another writer bumps the version now, behind its back
            if head.startswith("SELECT ID FROM STAGE_EXECUTIONS WHERE ID") and not c.in_transaction:
                plan.fired = True
                c.v_quiet += 1
                try:
                    sqlite3.Connection.execute(c, "UPDATE stage_executions SET version = version + 1 WHERE id = (SELECT stage_id FROM v_fault)")
                    sqlite3.Connection.commit(c)
                finally:
                    c.v_quiet -= 1

    conn.v_before_execute = before_execute
    run.w._harness_sql("CREATE TABLE IF NOT EXISTS v_fault(stage_id TEXT)")

    def after_step(r: Run, m: Any) -> None:
        plan.armed = False
        plan.event_inserted = False

    orig_deliver = run.deliver

    def deliver(row: dict[str, Any], lose_ack: bool = False) -> Any:
        if row["type"] in ("CompleteTask", "CompleteStage") and not plan.fired:
            if plan.seen_completions == plan.at:
                plan.armed = True
                plan.event_inserted = False
                try:
                    sid = json.loads(row["payload"]).get("stage_id")
                except Exception:  # noqa: BLE001
                    sid = None
                run.w._harness_sql("DELETE FROM v_fault")
                run.w._harness_sql("INSERT INTO v_fault VALUES (?)", (sid,))
            plan.seen_completions += 1
        try:
            return orig_deliver(row, lose_ack)
        finally:
            plan.armed = False

    run.deliver = deliver  # type: ignore[method-assign]
    run.after_step = after_step
    try:
        run.drain()
    finally:
        conn.v_before_execute = None
    return run, sub


def shard_faults(prop: str, tier: str, seed: int, name: str) -> dict[str, Any]:
    """Every completion step of the FIFO run x {exception after event append, forced lock conflict}."""
    c = Campaign(prop, tier, seed, LEVEL)
    spec = core_corpus()[name]
    base = Run(spec, events=True).drain()
    n_completions = sum(1 for _s, t, _r, _a in base.deliveries if t in ("CompleteTask", "CompleteStage"))
    ref = base.outcome()
    for kind in ("transient-after-event", "error-after-event", "lock-conflict"):
        for i in range(n_completions):
            plan = FaultPlan(kind, i)
            run, sub = run_with_fault(spec, {"style": "fifo", "d": [], "R": 2}, plan)
            case = {"kind": "fault", "fault": kind, "at_completion": i, "spec": spec}
            judge_final(c, run, sub, case)
            got = run.outcome()
            if plan.fired and kind != "error-after-event" and got["workflow"] != ref["workflow"]:
                c.violation(f"outcome-changed-by-{kind}", case, f"workflow {got['workflow']} != {ref['workflow']} after an injected {kind}")
            c.case(("c13f", name, kind, i), plan.fired, [f"fault:{kind}", "fault-fired" if plan.fired else "fault-not-reached"],
                   sample={"spec": name, "fault": kind, "at_completion_step": i, "fired": plan.fired, "handler_errors": run.handler_errors[:1],
                           "published": len(sub.calls)} if plan.fired and i % 5 == 1 else None)
    return c.export()


def shard_random(prop: str, tier: str, seed: int, n: int) -> dict[str, Any]:
    """Generated specs x schedules with the subscriber attached; invariant on the final state and on every commit."""
    c = Campaign(prop, tier, seed, LEVEL)
    spec_st = st.one_of(dag_spec(max_stages=5, allow=("multi", "fail", "cof", "poll", "skip")), loop_spec(max_j=2),
                        st.sampled_from(list(core_corpus().values())), syn_confluent_spec())

    @hseed(seed)
    @settings(max_examples=n, database=None, deadline=None, derandomize=False, suppress_health_check=list(HealthCheck),
              phases=[Phase.generate], report_multiple_bugs=False)
    @given(spec_st, schedule_desc(), st.sampled_from(["none", "transient-after-event", "error-after-event", "lock-conflict"]), st.integers(0, 12))
    def t(spec, sd, kind, at):
        case = {"kind": "random", "spec": spec, "schedule": sd, "fault": kind, "at_completion": at}
        if kind == "none":
            run = Run(spec, make_schedule(sd), events=True)
            sub = attach_subscriber(run)
            bad: list[tuple[str, str]] = []

            def on_commit(conn) -> None:  # noqa: ANN001
                if not bad:
                    bad.extend(snapshot_invariant_live(conn))

            run.w.conn.v_on_commit = on_commit
            try:
                run.drain()
            finally:
                run.w.conn.v_on_commit = None
            for clause, detail in bad[:2]:
                c.violation(clause + "|at-commit", case, detail)
            fired = True
        else:
            plan = FaultPlan(kind, at)
            run, sub = run_with_fault(spec, sd, plan)
            fired = plan.fired
        judge_final(c, run, sub, case)
        c.case(("c13x", spec, sd, kind, at), fired, [f"fault:{kind}", f"style:{sd['style']}"] + [f"feat:{f}" for f in features(spec)])

    t()
    return c.export()


def snapshot_invariant_live(conn) -> list[tuple[str, str]]:  # noqa: ANN001
    """Same invariant evaluated on the live connection right after a commit (durable state == visible state)."""
    class _Wrap:
        def __init__(self, c):  # noqa: ANN001
            self.c = c

        def execute(self, sql, params=()):  # noqa: ANN001
            return sqlite3.Connection.execute(self.c, sql, params)

    cur = _Wrap(conn)
    return snapshot_invariant(cur)  # type: ignore[arg-type]


def _dispatch(fn, a):  # noqa: ANN001
    return fn(*a)


def run(c: Campaign, jobs: int) -> None:
    quick = c.tier == "quick"
    names = [k for k in core_corpus() if k not in ("gate",)]
    crash_names = names if not quick else ["diamond", "multitask", "terminal_sibling", "cof", "poll", "transient", "selfloop", "loop3",
                                            "firstof", "orsplit", "skip", "before", "after", "mutex", "choice", "built"]
    args = [(shard_crash, (c.prop, c.tier, c.seed, n_)) for n_ in crash_names]
    fault_names = names if not quick else ["chain", "diamond", "multitask", "terminal", "cof", "selfloop", "skip", "after", "firstof"]
    args += [(shard_faults, (c.prop, c.tier, c.seed, n_)) for n_ in fault_names]
    n = 640 if quick else 20000
    shards = max(1, jobs)
    args += [(shard_random, (c.prop, c.tier, c.seed * 1000 + k, max(1, n // shards))) for k in range(shards)]
    run_shards(c, _dispatch, args, jobs)
    c.exhaustive_parts.append(f"every commit point of the FIFO run of {len(crash_names)} corpus specs (invariant evaluated inside each durable snapshot); "
                              f"every completion step of {len(fault_names)} corpus specs x 3 injected faults (transient error / plain error right after the event append, forced optimistic-lock conflict)")
    c.rule = ("case = (spec, crash after commit i) judged inside the durable bytes of that commit; (spec, crash i) + restart/recovery/drain judged at the "
              "end; (spec, fault kind, k-th completion step) with the fault injected there; (generated spec, schedule, optional fault). Non-trivial = "
              "crash state or injection that falls inside a CompleteTask/CompleteStage step (or a fault that actually fired). Distinct = the case tuple.")
    c.assumptions += [
        "event store on the same SQLite database as the workflow store (the configuration in which appends join the store transaction)",
        "only completion events of the regular CompleteTask / CompleteStage steps are asserted (start/skip/cancel/workflow events are recorded outside the transaction by design)",
        "synchronous subscriber only; the async bus mode is not exercised",
        "the forced lock conflict is a version bump written by the harness between the handler's row probe and its versioned UPDATE",
    ]
    for cls in ("inflight:CompleteTask", "inflight:CompleteStage", "fault:transient-after-event", "fault:error-after-event", "fault:lock-conflict", "fault-fired", "crash+recovery"):
        if c.classes.get(cls, 0) == 0:
            c.harness_error(f"generator starvation: class {cls} never produced")


def regress(c: Campaign, rec: dict[str, Any]) -> None:
    case = rec["case"]
    if case.get("kind") == "fault":
        plan = FaultPlan(case["fault"], case["at_completion"])
        run_, sub = run_with_fault(case["spec"], {"style": "fifo", "d": [], "R": 2}, plan)
        judge_final(c, run_, sub, case)
    elif case.get("kind") == "crash":
        states = crash_states(case["spec"], events=True)
        for clause, detail in check_blob(states[case["crash_commit"]]["blob"]):
            c.violation(clause, case, detail)


def replay(c: Campaign, rec: dict[str, Any]) -> int:
    regress(c, rec)
    for b, v in c.buckets.items():
        print(f"VIOLATION property={c.prop} replay=given\n  bucket: {b}\n  detail: {v['detail']}")
    if not c.buckets:
        print("replay: no violation")
    return 1 if c.buckets else 0
