"""C06 - completed is final; every durable status change is a legal transition.

Domain: every durable status change (SQL-trigger audit rows, which vanish with a rolled-back
transaction) observed in a mixed campaign: delivery schedules with reordering / lost acks and injected
cancel, signal, recovery-sweep and duplicate-StartStage operations (engine D); crash + restart + recovery
runs over every commit point of sampled workflows (engine K); racing workers (engine I scenarios of
C04/C07/C11).  Oracle: new in VALID_TRANSITIONS[old] as published by stabilize.models.status; only
JumpToStage / RestartStage may move anything back to NOT_STARTED (explicit re-arm), and RestartStage may
reopen a finished workflow.
"""

from __future__ import annotations

from typing import Any

from hypothesis import HealthCheck, Phase, given, seed as hseed, settings, strategies as st

from vlib import oracles
from vlib.campaign import Campaign
from vlib.engine_d import Run, inj_cancel, inj_pause, inj_recover, inj_restart, inj_signal, inj_start_stage, inj_unpause
from vlib.par import run_shards
from vlib.sched import make_schedule, schedule_desc
from vlib.spec import features

LEVEL = "exploration"


def apply_injections(run: Run, spec: dict[str, Any], inj: list[list[Any]]) -> None:
    refs = [s["ref"] for s in spec["stages"]]
    for at, kind, arg in inj:
        if kind == "cancel":
            f = inj_cancel()
        elif kind == "recover":
            f = inj_recover(1 + arg % 2)
        elif kind == "pause":
            f = inj_pause()
        elif kind == "unpause":
            f = inj_unpause()
        elif kind == "signal":
            f = inj_signal(refs[arg % len(refs)], "go", {"n": arg}, persistent=bool(arg & 1))
        else:
            f = inj_start_stage(refs[arg % len(refs)])
        run.injections.setdefault(at, []).append(f)


def judge_audit(c: Campaign, audit: list[tuple[Any, ...]], case: Any, classes: list[str], engine: str) -> None:
    viol = oracles.check_transitions(audit)
    for bucket, detail in viol:
        c.violation(bucket, case, detail)
    tuples = {(k, o, n, w) for _s, _st, w, k, _i, o, n in audit if o is not None and o != n}
    for t in tuples:
        c.nontrivial.add("|".join(map(str, t)))
    rows = sum(1 for r in audit if r[5] is not None and r[5] != r[6])
    c.evaluations += rows
    c.count(f"engine:{engine}:runs")
    c.count(f"engine:{engine}:audit-rows", rows)
    for cl in classes:
        c.count(cl)
    if len(c.samples) < c.max_samples and rows:
        c.samples.append({"engine": engine, "case": case if len(str(case)) < 1500 else str(case)[:1500],
                          "audit_tail": [list(r[1:]) for r in audit[-6:]]})


def shard_d(prop: str, tier: str, seed: int, n: int) -> dict[str, Any]:
    from checks.c05 import spec_strategy

    c = Campaign(prop, tier, seed, LEVEL)
    inj_st = st.lists(st.tuples(st.integers(0, 45), st.sampled_from(["cancel", "recover", "recover", "signal", "startstage"]),
                                st.integers(0, 7)).map(list), max_size=3)

    @hseed(seed)
    @settings(max_examples=n, database=None, deadline=None, derandomize=False, suppress_health_check=list(HealthCheck),
              phases=[Phase.generate], report_multiple_bugs=False)
    @given(spec_strategy(), schedule_desc(), inj_st)
    def t(spec, sd, inj):
        run = Run(spec, make_schedule(sd))
        apply_injections(run, spec, inj)
        run.drain()
        judge_audit(c, run.w.audit(), {"engine": "D", "spec": spec, "schedule": sd, "inj": inj},
                    [f"feat:{f}" for f in features(spec)] + [f"inj:{k}" for _a, k, _b in inj], "D")

    t()
    return c.export()


def shard_pause(prop: str, tier: str, seed: int, n: int) -> dict[str, Any]:
    """Operator pause / unpause around parallel branches (one of which may fail), ResumeStage often held back."""
    from vlib.spec import ok, stage

    c = Campaign(prop, tier, seed, LEVEL)

    @st.composite
    def pause_case(draw):
        k = draw(st.integers(2, 3))
        stages = [stage("x", [], [ok()])]
        for i in range(k):
            beh = draw(st.sampled_from(["ok", "fail", "two", "poll"]))
            tasks_ = {"ok": [ok()], "fail": [ok(), {"b": "fail"}], "two": [ok(), ok()], "poll": [{"b": "poll", "k": 2}]}[beh]
            stages.append(stage(f"b{i}", ["x"], tasks_))
        if draw(st.booleans()):
            stages.append(stage("j", [f"b{i}" for i in range(k)], [ok()]))
        spec = {"name": "pause-fork", "stages": stages}
        p = draw(st.integers(4, 22))
        q = p + draw(st.integers(1, 14))
        inj = [[p, "pause", 0], [q, "unpause", 0]]
        if draw(st.booleans()):
            inj.append([q + draw(st.integers(1, 10)), draw(st.sampled_from(["pause", "cancel", "unpause"])), 0])
        sd = draw(schedule_desc())
        if draw(st.booleans()):
            sd = {"style": "hold", "d": sd["d"], "R": sd["R"], "hold": "ResumeStage", "hold_for": draw(st.integers(5, 40))}
        return spec, sd, inj

    @hseed(seed)
    @settings(max_examples=n, database=None, deadline=None, derandomize=False, suppress_health_check=list(HealthCheck),
              phases=[Phase.generate], report_multiple_bugs=False)
    @given(pause_case())
    def t(case):
        spec, sd, inj = case
        run = Run(spec, make_schedule(sd))
        apply_injections(run, spec, inj)
        run.drain()
        judge_audit(c, run.w.audit(), {"engine": "D", "spec": spec, "schedule": sd, "inj": inj},
                    ["family:pause"] + [f"inj:{k}" for _a, k, _b in inj], "D")

    t()
    return c.export()


def shard_restart(prop: str, tier: str, seed: int, n: int) -> dict[str, Any]:
    """Operator restarts of finished (or unfinished) stages after the run went quiet, possibly several, each followed by a drain;
    stages whose task jumps only on a later execution, so that a jump lands among stages that have already finished."""
    from vlib.spec import emit, ok, stage

    c = Campaign(prop, tier, seed, LEVEL)

    @st.composite
    def restart_case(draw):
        k = draw(st.integers(2, 5))
        refs = [f"s{i}" for i in range(k)]
        stages = []
        for i, r in enumerate(refs):
            req = [] if i == 0 else [refs[draw(st.integers(max(0, i - 2), i - 1))]]
            beh = draw(st.sampled_from(["ok", "ok", "two", "fail", "cof", "jump", "jump"]))
            if beh == "jump":
                tasks_ = [{"b": "jump", "to": refs[draw(st.integers(0, k - 1))], "j": draw(st.integers(1, 2)), "after": draw(st.integers(0, 2)), "emit": [emit("k_r", "iter")]}]
            else:
                tasks_ = {"ok": [ok()], "two": [ok(), ok()], "fail": [{"b": "fail"}], "cof": [{"b": "fail"}]}[beh]
            s_ = stage(r, req, tasks_)
            if beh == "cof":
                s_["cof"] = True
            stages.append(s_)
        spec = {"name": "restart", "stages": stages, "max_jumps": draw(st.sampled_from([None, 1, 3]))}
        posts = draw(st.lists(st.tuples(st.sampled_from(["restart", "restart", "restart", "cancel", "recover"]), st.integers(0, k - 1)).map(list), min_size=1, max_size=3))
        return spec, draw(schedule_desc(max_len=40)), posts

    @hseed(seed)
    @settings(max_examples=n, database=None, deadline=None, derandomize=False, suppress_health_check=list(HealthCheck),
              phases=[Phase.generate], report_multiple_bugs=False)
    @given(restart_case())
    def t(case):
        spec, sd, posts = case
        run = Run(spec, make_schedule(sd))
        run.drain()
        refs = [s["ref"] for s in spec["stages"]]
        for kind, arg in posts:
            {"restart": inj_restart(refs[arg]), "cancel": inj_cancel(), "recover": inj_recover(1)}[kind](run)
            run.drain()
        judge_audit(c, run.w.audit(), {"engine": "D", "family": "restart", "spec": spec, "schedule": sd, "post": posts},
                    ["family:restart"] + [f"post:{k}" for k, _a in posts] + [f"feat:{f}" for f in features(spec)], "D")

    t()
    return c.export()


def shard_k(prop: str, tier: str, seed: int, names: list[str]) -> dict[str, Any]:
    from vlib.engine_k import crash_states, recover_from
    from vlib.spec import core_corpus

    c = Campaign(prop, tier, seed, LEVEL)
    corpus = core_corpus()
    for name in names:
        spec = corpus[name]
        states = crash_states(spec)
        step = 1 if tier == "thorough" else max(1, len(states) // 25)
        for cs in states[::step]:
            rec = recover_from(spec, cs)
            judge_audit(c, rec["audit"], {"engine": "K", "spec": spec["name"], "crash_commit": cs["index"]},
                        [f"feat:{f}" for f in features(spec)], "K")
    return c.export()


def shard_i(prop: str, tier: str, seed: int, family: str, which: str) -> dict[str, Any]:
    """Audit rows of racing-worker runs (the C04 / C07 / C11 scenarios under random pre-emption schedules)."""
    import random

    from vlib.engine_d import Schedule
    from vlib.engine_i import handle_one, run_schedule

    c = Campaign(prop, tier, seed, LEVEL)
    rnd = random.Random(seed)
    if family == "c04":
        from checks import c04 as mod

        sc = mod.scenarios()[which]
        prep = mod.prepare(sc)
        mk, progs, nthreads = mod.make_world_factory(prep), mod.programs_for(sc), sc["workers"]
    elif family == "c11":
        from checks import c11 as mod

        sc = mod.scenarios()[which]
        prep = mod.prepare(sc)
        mk, progs, nthreads = mod.make_world_factory(prep), mod.programs_for(sc), sc["workers"] + (1 if sc.get("sweep") else 0)
    else:
        from checks import c07 as mod

        sc = mod.pair_scenarios()[which]
        prep = mod.prepare_pair(sc)
        mk, progs, nthreads = mod.make_pair_world(prep, sc), (lambda w_: mod.pair_programs(sc)), sc["workers"]
    w, s = run_schedule(mk, progs, {})
    total = max(5, s.yields)
    for i in range(12 if tier == "quick" else 200):
        pre = {} if i == 0 else {rnd.randrange(0, total): rnd.randrange(0, nthreads) for _ in range(rnd.randint(1, 5))}
        w, s = run_schedule(mk, progs, pre)
        run = Run(sc["spec"], Schedule(), world=w, max_steps=1500)
        run.steps = 1000
        run.drain()
        judge_audit(c, w.audit(), {"engine": "I", "scenario": f"{family}:{which}", "preemptions": {str(k): v for k, v in pre.items()}},
                    [f"scenario:{family}:{which}"], "I")
    return c.export()


def ctl_scenarios() -> dict[str, dict[str, Any]]:
    """Workflow-level control messages racing a workflow-level status writer (two workers, one message each)."""
    from vlib.spec import ok, stage

    one = {"name": "one", "stages": [stage("a", [], [ok()])]}
    two = {"name": "two", "stages": [stage("a", [], [ok()]), stage("b", ["a"], [ok()])]}
    return {
        "cancel-vs-completeworkflow": {"spec": one, "hold": "CompleteWorkflow:|CancelWorkflow:", "workers": 2, "kind": "cancel", "cancel_when": "CompleteWorkflow:"},
        "cancel-vs-startworkflow": {"spec": one, "hold": "StartWorkflow:|CancelWorkflow:", "workers": 2, "kind": "cancel", "cancel_when": "StartWorkflow:"},
        "cancel-vs-last-completestage": {"spec": two, "hold": "CompleteStage:b|CancelWorkflow:", "workers": 2, "kind": "cancel", "cancel_when": "CompleteStage:b"},
        # the fanned-out CancelStage of a stage racing that stage's StartStage (claim commit / plan commit window)
        "cancelstage-vs-startstage": {"spec": {"name": "chain3", "stages": [stage("a", [], [ok()]), stage("s", ["a"], [ok(), ok()]), stage("z", ["s"], [ok()])]},
                                      "hold": "StartStage:s|CancelStage:s", "workers": 2, "kind": "cancel", "cancel_when": "StartStage:s"},
        "cancelstage-vs-startstage-built": {"spec": {"name": "chain3b", "stages": [stage("a", [], [ok()]), stage("s", ["a"], [ok(), ok()], built=True), stage("z", ["s"], [ok()])]},
                                            "hold": "StartStage:s|CancelStage:s", "workers": 2, "kind": "cancel", "cancel_when": "StartStage:s"},
        # the CancelStage of a stage racing the RunTask whose task is executing (and suspends / succeeds / fails afterwards)
        "cancelstage-vs-runtask-suspend": {"spec": {"name": "gate3", "stages": [stage("a", [], [ok()]), stage("g", ["a"], [{"b": "suspend", "emit": []}]), stage("z", ["g"], [ok()])]},
                                           "hold": "RunTask:g|CancelStage:g", "workers": 2, "kind": "cancel", "cancel_when": "RunTask:g"},
        "cancelstage-vs-runtask-ok": {"spec": {"name": "chain3r", "stages": [stage("a", [], [ok()]), stage("s", ["a"], [ok(), ok()]), stage("z", ["s"], [ok()])]},
                                      "hold": "RunTask:s|CancelStage:s", "workers": 2, "kind": "cancel", "cancel_when": "RunTask:s"},
        "cancelstage-vs-runtask-poll": {"spec": {"name": "poll3r", "stages": [stage("a", [], [ok()]), stage("s", ["a"], [{"b": "poll", "k": 2}]), stage("z", ["s"], [ok()])]},
                                        "hold": "RunTask:s|CancelStage:s", "workers": 2, "kind": "cancel", "cancel_when": "RunTask:s"},
        "cancelstage-vs-runtask-transient": {"spec": {"name": "tr3r", "stages": [stage("a", [], [ok()]), stage("s", ["a"], [{"b": "transient", "k": 2}]), stage("z", ["s"], [ok()])]},
                                             "hold": "RunTask:s|CancelStage:s", "workers": 2, "kind": "cancel", "cancel_when": "RunTask:s"},
        # a sibling failed while the stage's task was executing: CompleteWorkflow (TERMINAL) fans a CancelStage out to the running
        # stage, and the task's result (suspend / poll again / transient failure / jump / success) arrives after it
        **{f"failcancel-vs-runtask-{nm}": {"spec": {"name": f"failgate-{nm}", "stages": [stage("a", [], [ok()]), stage("b", ["a"], [{"b": "fail"}]), stage("g", ["a"], [tk])]},
                                           "hold": "RunTask:g|CompleteWorkflow:", "workers": 2, "kind": "none", "programs": [1, 2]}
           for nm, tk in (("suspend", {"b": "suspend", "emit": []}), ("poll", {"b": "poll", "k": 2}), ("transient", {"b": "transient", "k": 2}),
                          ("jump", {"b": "jump", "to": "a", "j": 1}), ("ok", ok()))},
        # ... and the same fan-out racing the JumpToStage the stage's task had queued (forward and backward jump)
        "failcancel-vs-jump-forward": {"spec": {"name": "failjumpf", "stages": [stage("a", [], [ok()]), stage("b", ["a"], [{"b": "fail"}]), stage("g", ["a"], [{"b": "jump", "to": "z", "j": 1}]),
                                                                                stage("m", ["g"], [ok()]), stage("z", ["m"], [ok()])]},
                                       "hold": "JumpToStage:g|CompleteWorkflow:", "workers": 2, "kind": "none", "programs": [1, 2]},
        "failcancel-vs-jump-backward": {"spec": {"name": "failjumpb", "stages": [stage("a", [], [ok()]), stage("b", ["a"], [{"b": "fail"}]), stage("g0", ["a"], [ok()]),
                                                                                 stage("g", ["g0"], [{"b": "jump", "to": "g0", "j": 1}])]},
                                        "hold": "JumpToStage:g|CompleteWorkflow:", "workers": 2, "kind": "none", "programs": [1, 2]},
        "cancel-vs-first-completestage": {"spec": two, "hold": "CompleteStage:a|CancelWorkflow:", "workers": 2, "kind": "cancel", "cancel_when": "CompleteStage:a"},
    }


def shard_ctl(prop: str, tier: str, seed: int, which: str) -> dict[str, Any]:
    """All schedules with <= P pre-emptions of the two racing handlers, then a FIFO drain; every audit row judged."""
    from checks import c07
    from vlib.engine_d import Schedule
    from vlib.engine_i import explore, handle_one

    c = Campaign(prop, tier, seed, LEVEL)
    sc = ctl_scenarios()[which]
    prep = c07.prepare_pair(sc)
    if not set(sc["hold"].split("|")) <= set(prep["pending"]):
        c.harness_error(f"ctl scenario {which}: held messages not both pending: {prep['pending']}")
        return c.export()
    mk = c07.make_pair_world(prep, sc)
    P = 2 if tier == "quick" else 3

    def j(w, s, pre):  # noqa: ANN001
        run = Run(sc["spec"], Schedule(), world=w, max_steps=1500)
        run.steps = 1000
        run.drain()
        judge_audit(c, w.audit(), {"engine": "I", "scenario": f"ctl:{which}", "preemptions": {str(k): v for k, v in sorted(pre.items())}},
                    [f"scenario:ctl:{which}", f"ctl-preemptions:{len(pre)}"], "I")
        final = w.scalar("SELECT status FROM pipeline_executions WHERE id = 'W1'")
        c.count(f"ctl:{which}:final:{final}")

    from vlib.engine_i import handle_upto

    progs = sc.get("programs") or [1] * sc["workers"]
    cnt = explore(mk, lambda w: [handle_one() if k == 1 else handle_upto(k) for k in progs], j, max_preemptions=P, max_runs=6000)
    c.extra[f"exhaustive:ctl:{which}"] = f"all schedules with <= {P} pre-emptions of 2 workers: {cnt}"
    return c.export()


def _dispatch(fn, a):  # noqa: ANN001
    return fn(*a)


def run(c: Campaign, jobs: int) -> None:
    quick = c.tier == "quick"
    n = 3200 if quick else 60000
    shards = max(1, jobs)
    args = [(shard_d, (c.prop, c.tier, c.seed * 1000 + k, max(1, n // shards))) for k in range(shards)]
    args += [(shard_pause, (c.prop, c.tier, c.seed * 1000 + 300 + k, max(1, n // (2 * shards)))) for k in range(shards)]
    args += [(shard_restart, (c.prop, c.tier, c.seed * 1000 + 600 + k, max(1, n // (2 * shards)))) for k in range(shards)]
    try:
        import vlib.engine_k  # noqa: F401

        names = ["diamond", "multitask", "terminal_sibling", "cof", "poll", "transient", "loop2", "firstof", "orsplit", "before",
                 "after", "mutex", "choice", "gate", "built", "selfloop"]
        for i in range(0, len(names), 2):
            args.append((shard_k, (c.prop, c.tier, c.seed, names[i:i + 2])))
    except ImportError:
        c.extra["engine_k"] = "not built in this revision"
    from checks import c04 as _c04, c07 as _c07, c11 as _c11

    for which in _c04.scenarios():
        args.append((shard_i, (c.prop, c.tier, c.seed, "c04", which)))
    for which in _c11.scenarios():
        args.append((shard_i, (c.prop, c.tier, c.seed, "c11", which)))
    for which in _c07.pair_scenarios():
        args.append((shard_i, (c.prop, c.tier, c.seed, "c07", which)))
    for which in ctl_scenarios():
        args.append((shard_ctl, (c.prop, c.tier, c.seed, which)))
    run_shards(c, _dispatch, args, jobs)
    c.exhaustive_parts += [f"{k[len('exhaustive:'):]}: {v}" for k, v in sorted(c.extra.items()) if k.startswith("exhaustive:ctl:")]
    c.rule = ("evaluations = durable status changes (audit rows with old != new) observed over all runs; distinct_nontrivial = distinct "
              "(entity kind, old, new, handler that wrote it) tuples observed. Runs: engine D specs x schedules x injected cancel / signal / "
              "recovery sweep / duplicate StartStage; operator pause/unpause around parallel branches with ResumeStage held back; engine K crash+recovery at sampled (thorough: all) commit points of 16 corpus specs; "
              "engine I racing-worker scenarios, plus workflow-level control races (CancelWorkflow against StartWorkflow / CompleteWorkflow / a CompleteStage) with bounded-exhaustive pre-emption.")
    c.assumptions += [
        "audit rows come from AFTER UPDATE OF status / AFTER INSERT triggers installed by the harness; the 'writer' is the message type being handled when the row was written",
        "the published table is imported from stabilize.models.status at run time (a change to the table itself is not detected here)",
        "SQLite backend only",
    ]
    for cls in ("inj:cancel", "inj:recover", "inj:signal", "feat:jump", "inj:pause", "inj:unpause", "post:restart", "engine:K:runs", "engine:I:runs"):
        if c.classes.get(cls, 0) == 0:
            c.harness_error(f"generator starvation: class {cls} never produced")


def _rerun_d(case: dict[str, Any]) -> Run:
    run_ = Run(case["spec"], make_schedule(case["schedule"]))
    if case.get("family") == "restart":
        run_.drain()
        refs = [s["ref"] for s in case["spec"]["stages"]]
        for kind, arg in case["post"]:
            {"restart": inj_restart(refs[arg]), "cancel": inj_cancel(), "recover": inj_recover(1)}[kind](run_)
            run_.drain()
        return run_
    apply_injections(run_, case["spec"], case["inj"])
    run_.drain()
    return run_


def _replay_i(case: dict[str, Any]) -> list[tuple[Any, ...]]:
    from vlib.engine_d import Schedule
    from vlib.engine_i import handle_one, run_schedule

    family, which = case["scenario"].split(":", 1)
    pre = {int(k): v for k, v in case["preemptions"].items()}
    if family == "ctl":
        from checks import c07

        sc = ctl_scenarios()[which]
        mk, progs = c07.make_pair_world(c07.prepare_pair(sc), sc), (lambda w_: [handle_one() for _ in range(sc["workers"])])
    elif family == "c07":
        from checks import c07

        sc = c07.pair_scenarios()[which]
        mk, progs = c07.make_pair_world(c07.prepare_pair(sc), sc), (lambda w_: c07.pair_programs(sc))
    else:
        import importlib

        mod = importlib.import_module(f"checks.{family}")
        sc = mod.scenarios()[which]
        mk, progs = mod.make_world_factory(mod.prepare(sc)), mod.programs_for(sc)
    w, _s = run_schedule(mk, progs, pre)
    run_ = Run(sc["spec"], Schedule(), world=w, max_steps=1500)
    run_.steps = 1000
    run_.drain()
    return w.audit()


def replay(c: Campaign, rec: dict[str, Any]) -> int:
    case = rec["case"]
    if case.get("engine") == "I":
        audit = _replay_i(case)
        viol = oracles.check_transitions(audit)
        for b, d in viol:
            print(f"VIOLATION property={c.prop} replay=given\n  bucket: {b}\n  detail: {d}")
        if not viol:
            print("replay: no violation")
        return 1 if viol else 0
    if case.get("engine") != "D":
        print("replay of K cases: re-run the campaign (the case names the spec and crash index)")
        return 2
    run_ = _rerun_d(case)
    viol = oracles.check_transitions(run_.w.audit())
    for b, d in viol:
        print(f"VIOLATION property={c.prop} replay=given\n  bucket: {b}\n  detail: {d}")
    if not viol:
        print("replay: no violation")
    return 1 if viol else 0


def regress(c: Campaign, rec: dict[str, Any]) -> None:
    case = rec["case"]
    run_ = _rerun_d(case)
    judge_audit(c, run_.w.audit(), case, ["regression"], "D")
