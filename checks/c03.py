"""C03 - a stage never runs before its dependencies allow it.

Domain: generated DAGs (<= 7 stages, every join type, failing / succeeding / skipped branches, OR-splits
whose condition truth the generator knows) x delivery schedules (reordering, lost acks, hold-back) x
injected StartStage messages for arbitrary stages at arbitrary steps (early, late, duplicated).
Oracle (invariant over the history): for every task execution of stage S at delivery step k, with the
upstream statuses reconstructed from the durable audit trail up to step k-1 (the RunTask handler commits
nothing before it executes), S's join condition holds: AND - every upstream continuable; quorum - at least
the threshold; first-of - at least one; OR - every branch the split activated.  Exempt only: S is the
explicit target of a jump since it was last re-armed.
"""

from __future__ import annotations

import json
from typing import Any

from hypothesis import HealthCheck, Phase, given, seed as hseed, settings, strategies as st

from vlib import oracles, tasks
from vlib.campaign import Campaign
from vlib.engine_d import Run, inj_start_stage
from vlib.par import run_shards
from vlib.sched import make_schedule, schedule_desc
from vlib.spec import by_ref, core_corpus, dag_spec, features, loop_spec, ok, stage

LEVEL = "exploration"
CONT = oracles.CONTINUABLE


def split_skipped(spec: dict[str, Any]) -> set[str]:
    """Branches an OR-split does not activate (model of the documented OR-split rule; conditions are the
    literals 'true' / 'false', no-condition = activated, nothing activated = first downstream activated)."""
    out: set[str] = set()
    for s in spec["stages"]:
        if s.get("split") != "OR" or not s.get("conds"):
            continue
        down = [d["ref"] for d in spec["stages"] if s["ref"] in d["req"]]
        act = [d for d in down if s["conds"].get(d, "true") == "true"]
        if not act and down:
            act = [down[0]]
        out |= {d for d in down if d not in act}
    return out


def join_ok(s: dict[str, Any], status: dict[str, str], skipped_branches: set[str]) -> tuple[bool, str]:
    ups = s["req"]
    if not ups:
        return True, "initial"
    cont = [u for u in ups if status.get(u) in CONT]
    j = s.get("join", "AND")
    if j == "NOFM" and s.get("threshold", 0) > 0:
        return len(cont) >= s["threshold"], f"quorum {len(cont)}/{s['threshold']} of {ups}"
    if j == "DISC":
        return len(cont) >= 1, f"first-of: {len(cont)} of {ups} finished"
    if j == "OR":
        need = [u for u in ups if u not in skipped_branches]
        bad = [u for u in need if status.get(u) not in CONT]
        return not bad, f"OR-join: activated branches {need}, unfinished {bad}"
    bad = [u for u in ups if status.get(u) not in CONT]
    return not bad, f"AND-join: upstream not continuable {[(u, status.get(u)) for u in bad]}"


def judge(c: Campaign, spec: dict[str, Any], run: Run, desc: Any, extra=()) -> None:
    m = by_ref(spec)
    audit = run.w.audit()
    qlog = run.w.qlog()
    ledger = tasks.ledger_snapshot()
    payload = {row_id: json.loads(p) for _s, _st, _w, op, tbl, row_id, _mt, p in qlog if op == "ins" and tbl == "q"}
    id2ref = {f"W1-{r}": r for r in m}
    skipped = split_skipped(spec)
    # status timeline: list of (step, ref, new) for top-level stages
    changes = [(step, id2ref[i], new, writer) for _seq, step, writer, kind, i, _old, new in audit if kind == "stage" and i in id2ref]
    # jump targets by step
    jump_target_at: dict[int, str] = {}
    for step, typ, row_id, _acked in run.deliveries:
        if typ == "JumpToStage" and row_id in payload:
            jump_target_at[step] = payload[row_id].get("target_stage_ref_id")

    def status_before(step: int) -> dict[str, str]:
        stt = {r: "NOT_STARTED" for r in m}
        for st_, r, new, _w in changes:
            if st_ < step:
                stt[r] = new
        return stt

    def jump_exempt(ref: str, step: int) -> bool:
        last = None
        for st_, r, new, w in changes:
            if st_ < step and r == ref and new == "NOT_STARTED":
                last = (st_, w)
        return bool(last and last[1] == "JumpToStage" and jump_target_at.get(last[0]) == ref)

    case = {"spec": spec, "schedule": desc}
    early = 0
    for step, typ, row_id, _acked in run.deliveries:
        if typ == "StartStage" and row_id in payload:
            ref = id2ref.get(payload[row_id].get("stage_id"))
            if ref and not join_ok(m[ref], status_before(step), skipped)[0]:
                early += 1
    for e in ledger:
        ref = e["stage"]
        if ref not in m:
            continue  # synthetic child: no upstream join of its own
        okk, why = join_ok(m[ref], status_before(e["step"]), skipped)
        if not okk and not jump_exempt(ref, e["step"]):
            j = m[ref].get("join", "AND")
            c.violation(f"ran-before-join-met|{j}", case, f"{ref}.t{e['task']} executed at step {e['step']}: {why}",
                        sig={"join": j, "features": features(spec)})
    # the stage itself must not be claimed (NOT_STARTED -> RUNNING) while its join condition is false either:
    # the StartStage handler evaluates readiness on exactly the statuses durable before its own step
    for step, ref, new, writer in changes:
        if new != "RUNNING" or writer != "StartStage":
            continue
        prev = [n for st_, r, n, _w in changes if r == ref and st_ < step]
        if prev and prev[-1] != "NOT_STARTED":
            continue  # resumed (SUSPENDED/PAUSED -> RUNNING), not a start
        okk, why = join_ok(m[ref], status_before(step), skipped)
        if not okk and not jump_exempt(ref, step):
            j = m[ref].get("join", "AND")
            c.violation(f"started-before-join-met|{j}", case, f"stage {ref} went RUNNING at step {step}: {why}",
                        sig={"join": j, "features": features(spec)})
    c.case(("c03", spec, desc), early > 0, [f"feat:{f}" for f in features(spec)] + list(extra) + (["early-startstage"] if early else []),
           sample={"spec": spec, "schedule": desc, "startstage_while_join_false": early} if early else None)


@st.composite
def join_spec(draw) -> dict[str, Any]:
    """root (optionally an OR-split) -> 2-4 branches (each 1-2 stages; may fail, continue-on-failure, poll) -> join -> tail."""
    k = draw(st.integers(2, 4))
    root = stage("x", [], [ok()])
    stages = [root]
    ends = []
    orsplit = draw(st.booleans())
    conds = {}
    for i in range(k):
        b = f"b{i}"
        beh = draw(st.sampled_from(["ok", "ok", "fail", "cof", "poll", "two"]))
        tasks_ = [ok()]
        kw: dict[str, Any] = {}
        if beh == "fail":
            tasks_ = [{"b": "fail"}]
        elif beh == "cof":
            tasks_ = [{"b": "fail"}]
            kw["cof"] = True
        elif beh == "poll":
            tasks_ = [{"b": "poll", "k": draw(st.integers(1, 2))}]
        elif beh == "two":
            tasks_ = [ok(), ok()]
        stages.append(stage(b, ["x"], tasks_, **kw))
        if orsplit:
            conds[b] = draw(st.sampled_from(["true", "false"]))
        end = b
        if draw(st.integers(0, 3)) == 0:
            stages.append(stage(f"{b}x", [b], [ok()]))
            end = f"{b}x"
        ends.append(end)
    if orsplit:
        root["split"] = "OR"
        root["conds"] = conds
    jt = draw(st.sampled_from(["AND", "OR", "DISC", "NOFM"]))
    j = stage("j", ends, [ok()])
    if jt != "AND":
        j["join"] = jt
    if jt == "NOFM":
        j["threshold"] = draw(st.integers(1, k))
    stages.append(j)
    stages.append(stage("z", ["j"], [ok()]))
    return {"name": f"join-{jt}", "stages": stages}


def spec_strategy():
    return st.one_of(
        join_spec(), join_spec(),
        dag_spec(max_stages=7, allow=("multi", "fail", "cof", "stop", "poll", "skip"), joins=("AND", "AND", "DISC", "NOFM", "OR")),
        st.sampled_from(list(core_corpus().values())),
        loop_spec(),
    )


def shard(prop: str, tier: str, seed: int, n: int) -> dict[str, Any]:
    c = Campaign(prop, tier, seed, LEVEL)

    @hseed(seed)
    @settings(max_examples=n, database=None, deadline=None, derandomize=False, suppress_health_check=list(HealthCheck),
              phases=[Phase.generate], report_multiple_bugs=False)
    @given(spec_strategy(), schedule_desc(), st.lists(st.tuples(st.integers(0, 50), st.integers(0, 9)), max_size=4))
    def t(spec, sd, dups):
        run = Run(spec, make_schedule(sd))
        refs = [s["ref"] for s in spec["stages"]]
        inj = [[at, refs[which % len(refs)]] for at, which in dups]
        for at, ref in inj:
            run.injections.setdefault(at, []).append(inj_start_stage(ref))
        run.drain()
        desc = dict(sd)
        desc["startstage"] = inj
        judge(c, spec, run, desc, [f"style:{sd['style']}"] + (["inj:startstage"] if inj else []))

    t()
    return c.export()


def sweep_specs() -> dict[str, dict[str, Any]]:
    from vlib.spec import make_loop

    out = dict(core_corpus())
    for shape in ("nested", "two_routers", "side", "cycle3"):
        out[f"loop-{shape}"] = make_loop(shape, 1, None)
    # a halting branch next to slower branches under every join type (the window in which only halted / unfinished upstreams exist)
    for jt, kw in (("AND", {}), ("DISC", {"join": "DISC"}), ("NOFM", {"join": "NOFM", "threshold": 2}), ("OR", {"join": "OR"})):
        out[f"failbranch-{jt}"] = {"name": f"failbranch-{jt}", "stages": [
            stage("x", [], [ok()]), stage("b0", ["x"], [{"b": "fail"}]), stage("b1", ["x"], [ok(), ok(), ok()]),
            stage("b2", ["x"], [ok(), {"b": "fail"}], cof=True), stage("j", ["b0", "b1", "b2"], [ok()], **kw), stage("z", ["j"], [ok()])]}
    return out


def shard_sweep(prop: str, tier: str, seed: int, name: str, stage_ref: str) -> dict[str, Any]:
    """One extra StartStage for ``stage_ref`` injected before every delivery position of the FIFO run (exhaustive)."""
    c = Campaign(prop, tier, seed, LEVEL)
    spec = sweep_specs()[name]
    base = Run(spec).drain()
    for at in range(base.steps + 1):
        run = Run(spec)
        run.injections.setdefault(at, []).append(inj_start_stage(stage_ref))
        run.drain()
        judge(c, spec, run, {"style": "fifo+startstage", "d": [], "startstage": [[at, stage_ref]]}, ["sweep"])
    c.extra[f"sweep:{name}"] = base.steps + 1
    return c.export()


def _dispatch(fn, a):  # noqa: ANN001
    return fn(*a)


def run(c: Campaign, jobs: int) -> None:
    n = 4000 if c.tier == "quick" else 100000
    shards = max(1, jobs)
    args = [(shard, (c.prop, c.tier, c.seed * 1000 + k, max(1, n // shards))) for k in range(shards)]
    for name, spec in sweep_specs().items():
        for s in spec["stages"]:
            args.append((shard_sweep, (c.prop, c.tier, c.seed, name, s["ref"])))
    run_shards(c, _dispatch, args, jobs)
    c.exhaustive_parts.append("single injected StartStage: every (stage, delivery position) of the FIFO run of the 23 corpus specs, 4 loop shapes and 4 failing-branch join specs")
    c.rule = ("case = (spec, schedule, injected StartStage list). Non-trivial = at least one StartStage was delivered while the "
              "stage's join condition was false (the arrival order the property is about), determined from the audit trail. "
              "Distinct = hash of the case.")
    c.assumptions += [
        "upstream statuses at execution time are reconstructed from durable status changes of earlier delivery steps",
        "OR-split conditions are the literals 'true'/'false' so the generator knows which branches are activated",
        "single worker thread; SQLite only",
    ]
    for cls in ("feat:join-DISC", "feat:join-NOFM", "feat:join-OR", "feat:join-AND", "feat:or-split", "early-startstage", "feat:jump"):
        if c.classes.get(cls, 0) == 0:
            c.harness_error(f"generator starvation: class {cls} never produced")


def replay(c: Campaign, rec: dict[str, Any]) -> int:
    case = rec["case"]
    run_ = Run(case["spec"], make_schedule(case["schedule"]))
    for at, ref in case["schedule"].get("startstage", []):
        run_.injections.setdefault(at, []).append(inj_start_stage(ref))
    run_.drain()
    judge(c, case["spec"], run_, case["schedule"])
    for b, v in c.buckets.items():
        print(f"VIOLATION property={c.prop} replay=given\n  bucket: {b}\n  detail: {v['detail']}")
    if not c.buckets:
        print("replay: no violation")
    return 1 if c.buckets else 0
