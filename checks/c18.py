"""C18 - persistent signals are never lost; a suspended stage resumes once per signal.

Domain: gate workflows (a -> gate -> z; a gate beside a parallel branch under a join; two gates in sequence) x
the signal sent before EVERY delivery position of the run (before the gate starts, while it runs, after it
suspended; exhaustive under FIFO) x persistent / transient x payload x generated delivery schedules (the
SignalStage message may be overtaken or held back) x every crash point of the signalled run (restart +
recovery) and of the un-signalled run.
Oracle: persistent - the gate task executes exactly twice, its second execution sees the sent name and
payload, gate and workflow finish, no buffered signal is left, and the gate is resumed exactly once;
transient - the same iff the gate's durable status was SUSPENDED when the SignalStage handler ran, otherwise
no effect at all (one execution, gate SUSPENDED, workflow waiting); no signal - the gate stays SUSPENDED
across restart and recovery and is not executed again.
"""

from __future__ import annotations

import json
from typing import Any

from hypothesis import HealthCheck, Phase, given, seed as hseed, settings, strategies as st

from vlib import oracles, tasks
from vlib.campaign import Campaign
from vlib.engine_d import Run, inj_signal
from vlib.engine_k import crash_states, recover_from
from vlib.par import run_shards
from vlib.sched import make_schedule, schedule_desc
from vlib.spec import emit, ok, stage

LEVEL = "exploration"


def gate_specs() -> dict[str, dict[str, Any]]:
    g = lambda: {"b": "suspend", "emit": [emit("k_g")]}  # noqa: E731
    return {
        "gate-chain": {"name": "gate-chain", "stages": [stage("a", [], [ok(emit("k_a"))]), stage("g", ["a"], [g()]), stage("z", ["g"], [ok()])], "gates": ["g"]},
        "gate-diamond": {"name": "gate-diamond", "stages": [stage("a", [], [ok()]), stage("g", ["a"], [ok(), g()]), stage("b", ["a"], [ok(), ok()]),
                                                               stage("z", ["g", "b"], [ok()])], "gates": ["g"]},
        "gate-first": {"name": "gate-first", "stages": [stage("g", [], [g()]), stage("z", ["g"], [ok()])], "gates": ["g"]},
        # a gate beside an independent branch that finishes (no join): CompleteWorkflow is queued while the gate waits
        "gate-beside-branch": {"name": "gate-beside-branch", "stages": [stage("a", [], [ok()]), stage("g", ["a"], [g()]), stage("b", ["a"], [ok(), ok()])], "gates": ["g"]},
        # the gate is one upstream of a first-of join that fires on the other branch: when the gate is released later nothing
        # downstream of it is left to run
        "gate-under-firstof": {"name": "gate-under-firstof", "stages": [stage("a", [], [ok()]), stage("b", ["a"], [ok()]), stage("g", ["a"], [g()]),
                                                                          stage("j", ["b", "g"], [ok()], join="DISC"), stage("z", ["j"], [ok()])], "gates": ["g"]},
        # a finished leaf beside a gate that has a downstream stage
        "gate-then-stage-beside-leaf": {"name": "gate-then-stage-beside-leaf", "stages": [stage("a", [], [ok()]), stage("g", ["a"], [g()]), stage("c", ["g"], [ok()]),
                                                                                            stage("l", ["a"], [ok()])], "gates": ["g"]},
        # behind the gate a stage that will be skipped feeds a first-of join that fires on the other branch: once the gate is
        # released the last thing that happens in the workflow is a SkipStage
        "gate-skip-under-firstof": {"name": "gate-skip-under-firstof", "stages": [stage("a", [], [ok()]), stage("b", ["a"], [ok()]), stage("g", ["a"], [g()]),
                                                                                    stage("k", ["g"], [ok()], enabled=False), stage("j", ["b", "k"], [ok()], join="DISC")], "gates": ["g"]},
        # the gate sits behind a retry loop: the jump back re-arms everything downstream of its target, the not yet started
        # gate (and a persistent signal already buffered on it) included
        "gate-after-loop": {"name": "gate-after-loop", "stages": [stage("a", [], [ok()]), stage("r", ["a"], [{"b": "jump", "to": "a", "j": 1, "emit": []}]),
                                                                    stage("g", ["r"], [g()]), stage("z", ["g"], [ok()])], "gates": ["g"]},
        # the gate is the target of a forward jump (re-armed by the jump before it ever ran)
        "gate-jump-target": {"name": "gate-jump-target", "stages": [stage("a", [], [{"b": "jump", "to": "g", "j": 1, "emit": []}]), stage("b", ["a"], [ok()]),
                                                                      stage("g", ["b"], [g()]), stage("z", ["g"], [ok()])], "gates": ["g"]},
        "two-gates": {"name": "two-gates", "stages": [stage("a", [], [ok()]), stage("g", ["a"], [g()]), stage("h", ["g"], [g(), ok()]), stage("z", ["h"], [ok()])],
                      "gates": ["g", "h"]},
    }


def gate_task_index(spec: dict[str, Any], ref: str) -> int:
    s = [x for x in spec["stages"] if x["ref"] == ref][0]
    return [i for i, t in enumerate(s["tasks"]) if t.get("b") == "suspend"][0]


def judge(c: Campaign, spec: dict[str, Any], run_or_rec: Any, desc: dict[str, Any], signals: list[dict[str, Any]], extra=(),
          recovered: bool = False, allowed_extra: str | None = None) -> None:
    """signals: [{"gate", "name", "data", "persistent", "handled_step", "gate_status_when_handled"}]"""
    if recovered:
        got, led, audit = run_or_rec["outcome"], run_or_rec["ledger"], run_or_rec["audit"]
        stuck_diag = run_or_rec.get("stuck") or ""
        buffered = run_or_rec.get("buffered", {})
    else:
        run = run_or_rec
        got, led, audit = run.outcome(), tasks.ledger_snapshot(), run.w.audit()
        buffered = {}
        for sid, ctx in run.w.rows("SELECT id, context FROM stage_executions"):
            b = json.loads(ctx or "{}").get("_buffered_signals")
            if b:
                buffered[sid.replace("W1-", "")] = b
    case = {"spec": spec, "schedule": desc, "signals": [{k: v for k, v in s.items() if k in ("gate", "name", "data", "persistent", "at")} for s in signals]}
    eff: dict[str, dict[str, Any] | None] = {g: None for g in spec["gates"]}
    for sg in signals:
        if sg["persistent"] or sg.get("gate_status_when_handled") == "SUSPENDED":
            eff[sg["gate"]] = sg
    nontrivial = False
    expect_all_done = all(eff[g] is not None for g in spec["gates"])
    for g in spec["gates"]:
        ti = gate_task_index(spec, g)
        key = f"{g}.t{ti}"
        n = got["counts"].get(key, 0)
        slack = 1 if allowed_extra == key else 0
        sg = eff[g]
        # a later gate is only reached if the earlier ones were released
        reached = True
        for g2 in spec["gates"]:
            if g2 == g:
                break
            if eff[g2] is None:
                reached = False
        if not reached:
            if n:
                c.violation("gate-ran-behind-closed-gate", case, f"{key} executed {n}x although the gate before it was never released")
            continue
        if sg is None:
            if not (1 <= n <= 1 + slack):
                c.violation("unsignalled-gate-executions", case, f"{key} executed {n}x without an effective signal (expected 1)")
            if got["stages"].get(g) != "SUSPENDED":
                c.violation("unsignalled-gate-not-suspended", case, f"gate {g} is {got['stages'].get(g)} without an effective signal")
            if got["workflow"] in oracles.COMPLETE:
                c.violation("workflow-finished-past-closed-gate", case, f"workflow {got['workflow']} although gate {g} was never released")
        else:
            kind = "persistent" if sg["persistent"] else "transient"
            if sg.get("gate_status_when_handled") != "SUSPENDED":
                nontrivial = True
            if not (2 <= n <= 2 + slack):
                c.violation(f"{kind}-signal:gate-executions", case,
                            f"{key} executed {n}x, expected exactly 2 (gate was {sg.get('gate_status_when_handled')} when the signal was handled at step {sg.get('handled_step')})")
            else:
                execs = [e for e in led if e["stage"] == g and e["task"] == ti]
                last = execs[-1]["seen"]
                if last.get("_signal_name") != sg["name"] or last.get("_signal_data") != sg["data"]:
                    c.violation(f"{kind}-signal:payload", case, f"resumed gate saw name={last.get('_signal_name')!r} data={last.get('_signal_data')!r}, sent {sg['name']!r} {sg['data']!r}")
            if got["stages"].get(g) != "SUCCEEDED":
                c.violation(f"{kind}-signal:gate-status", case, f"gate {g} is {got['stages'].get(g)} after an effective {kind} signal")
            if buffered.get(g):
                c.violation(f"{kind}-signal:buffer-not-consumed", case, f"gate {g} still has buffered signals {buffered[g]}")
    if expect_all_done and got["workflow"] != "SUCCEEDED":
        c.violation("workflow-not-finished-after-signals", case, f"workflow {got['workflow']} although every gate received an effective signal; stages {got['stages']}")
    if got["queue"] or got["dlq"]:
        c.violation("stranded-message", case, f"queue {got['queue']}, DLQ {got['dlq']} at quiescence")
    c.case(("c18", spec["name"], desc, case["signals"]), nontrivial,
           [f"spec:{spec['name']}"] + list(extra) + [("persistent" if s["persistent"] else "transient") + ":" + str(s.get("gate_status_when_handled")) for s in signals],
           sample={"spec": spec["name"], "schedule": desc, "signals": case["signals"], "workflow": got["workflow"], "counts": got["counts"]} if nontrivial else None)


def run_case(spec: dict[str, Any], sd: dict[str, Any], sigs: list[dict[str, Any]]) -> tuple[Run, list[dict[str, Any]]]:
    run = Run(spec, make_schedule(sd))
    for sg in sigs:
        run.injections.setdefault(sg["at"], []).append(inj_signal(sg["gate"], sg["name"], sg["data"], sg["persistent"]))
    info = [dict(s) for s in sigs]
    seen_signal_rows: set[int] = set()

    def before(r: Run) -> None:
        pass

    orig = run.deliver

    def deliver(row: dict[str, Any], lose_ack: bool = False) -> Any:
        if row["type"] == "SignalStage" and row["id"] not in seen_signal_rows:
            seen_signal_rows.add(row["id"])
            p = json.loads(row["payload"])
            gate = p["stage_id"].replace("W1-", "")
            status = run.w.scalar("SELECT status FROM stage_executions WHERE id = ?", (p["stage_id"],))
            for s in info:
                if s["gate"] == gate and s["name"] == p["signal_name"] and "handled_step" not in s:
                    s["handled_step"] = run.steps + 1
                    s["gate_status_when_handled"] = status
                    break
        return orig(row, lose_ack)

    run.deliver = deliver  # type: ignore[method-assign]
    run.drain()
    return run, info


def shard_positions(prop: str, tier: str, seed: int, name: str) -> dict[str, Any]:
    """Signal injected before every delivery position (FIFO and one hold-back schedule), persistent and transient."""
    c = Campaign(prop, tier, seed, LEVEL)
    spec = gate_specs()[name]
    for sd in ({"style": "fifo", "d": [], "R": 2}, {"style": "hold", "d": [], "R": 2, "hold": "SignalStage", "hold_for": 5}):
        n = Run(spec).drain().steps + 12
        for at in range(n + 1):
            for persistent in (True, False):
                sigs = [{"gate": g, "name": f"go-{g}", "data": {"n": at, "who": g}, "persistent": persistent, "at": at + 3 * i} for i, g in enumerate(spec["gates"])]
                run, info = run_case(spec, sd, sigs)
                judge(c, spec, run, {**sd}, info, ["positions", f"style:{sd['style']}"])
    return c.export()


def shard_random(prop: str, tier: str, seed: int, n: int) -> dict[str, Any]:
    c = Campaign(prop, tier, seed, LEVEL)
    names = sorted(gate_specs())
    payload = st.dictionaries(st.sampled_from(["a", "b", "é"]), st.one_of(st.integers(-5, 5), st.text(max_size=4), st.lists(st.integers(0, 3), max_size=2)), max_size=3)

    @hseed(seed)
    @settings(max_examples=n, database=None, deadline=None, derandomize=False, suppress_health_check=list(HealthCheck),
              phases=[Phase.generate], report_multiple_bugs=False)
    @given(st.sampled_from(names), schedule_desc(), st.lists(st.tuples(st.integers(0, 40), st.booleans(), payload), min_size=0, max_size=2), st.booleans())
    def t(name, sd, raw, same):
        spec = gate_specs()[name]
        sigs = []
        for i, g in enumerate(spec["gates"]):
            if i < len(raw):
                at, pers, data = raw[i]
                sigs.append({"gate": g, "name": f"go-{g}", "data": data, "persistent": pers, "at": at})
        run, info = run_case(spec, sd, sigs)
        judge(c, spec, run, dict(sd), info, ["random", f"style:{sd['style']}"])

    t()
    return c.export()


def _durable_stage_status(blob: bytes, ref: str) -> str | None:
    import sqlite3

    con = sqlite3.connect(":memory:")
    try:
        con.deserialize(blob)
        r = con.execute("SELECT status FROM stage_executions WHERE id = ?", (f"W1-{ref}",)).fetchone()
        return r[0] if r else None
    finally:
        con.close()


def shard_crash(prop: str, tier: str, seed: int, name: str, signalled: bool) -> dict[str, Any]:
    """Every crash point of the (un)signalled FIFO run: restart + recovery + drain."""
    c = Campaign(prop, tier, seed, LEVEL)
    spec = gate_specs()[name]
    g0 = spec["gates"][0]
    base_steps = Run(spec).drain().steps
    positions = [1, base_steps // 2, base_steps + 2] if signalled else [None]
    for at in positions:
        sigs = [{"gate": g, "name": f"go-{g}", "data": {"k": g}, "persistent": True, "at": (at or 0) + 2 * i} for i, g in enumerate(spec["gates"])] if signalled else []

        def prepare(run: Run, sigs=sigs) -> None:
            for sg in sigs:
                run.injections.setdefault(sg["at"], []).append(inj_signal(sg["gate"], sg["name"], sg["data"], True))

        states = crash_states(spec, prepare=prepare)
        step = 1 if tier == "thorough" else max(1, len(states) // 60)
        for cs in states[::step]:
            rec = recover_from(spec, cs)
            # signals not yet injected at the crash point are sent after the restart (the sender retries)
            info = []
            for sg in sigs:
                info.append({**sg, "gate_status_when_handled": "n/a", "handled_step": None})
            if sigs:
                import sqlite3

                con = sqlite3.connect(":memory:")
                con.deserialize(cs["blob"])
                sent = con.execute("SELECT COUNT(*) FROM v_qlog WHERE message_type = 'SignalStage' AND op = 'ins'").fetchone()[0]
                con.close()
                if sent < len(sigs):
                    continue  # a signal had not been sent yet at this crash point (nobody re-sends it): covered by the position sweep
            judge(c, spec, rec, {"style": "fifo", "crash_commit": cs["index"], "signal_at": at}, info, ["crash", "signalled" if signalled else "unsignalled"],
                  recovered=True, allowed_extra=rec.get("allowed_extra"))
        if not signalled:
            # the signal arrives only after the restart: sent right after recovery, then drained in FIFO order and with the
            # (possibly stale, redelivered) RunTask / StartTask messages held back behind it
            sig = {"gate": g0, "name": f"go-{g0}", "data": {"k": g0}, "persistent": True, "at": None, "gate_status_when_handled": "n/a", "handled_step": None}
            for cs in states[::step]:
                for hold in (None, "RunTask", "StartTask", "CompleteTask", [2], [2, 2], [0, 2], [2, 0, 2], [4], [2, 4]):
                    if isinstance(hold, list):
                        sched = make_schedule({"d": hold, "R": 2})  # reorder only the first deliveries after the restart, FIFO afterwards
                    else:
                        sched = make_schedule({"d": [], "R": 2, "hold": hold, "hold_for": 6}) if hold else None
                    rec = recover_from(spec, cs, schedule=sched, after_recovery=inj_signal(g0, sig["name"], sig["data"], True))
                    if _durable_stage_status(cs["blob"], g0) == "SUSPENDED":
                        # the in-flight RunTask's result (the suspension) was already durable at the crash: its redelivery is a
                        # duplicate and may not run the task again, so the "in-flight step may repeat" allowance does not apply
                        rec["allowed_extra"] = None
                    judge(c, spec, rec, {"style": (f"d:{hold}" if isinstance(hold, list) else f"hold:{hold}") if hold else "fifo", "crash_commit": cs["index"], "signal_at": "after-restart"}, [sig],
                          ["crash", "signal-after-restart", f"after-restart-order:{hold}"], recovered=True, allowed_extra=rec.get("allowed_extra"))
    return c.export()


MULTI_SPEC = {"name": "gate-twice", "stages": [stage("a", [], [ok()]), stage("g", ["a"], [{"b": "suspend", "k": 2, "emit": [emit("k_g")]}]), stage("z", ["g"], [ok()])]}


def multi_case(c: Campaign, p1: int, p2: int, kind: str, sd: dict[str, Any]) -> None:
    """A gate that suspends twice and two persistent signals (identical / same name / different): one resume per signal."""
    spec = MULTI_SPEC
    sigs = [("go", {"n": 1}), {"identical": ("go", {"n": 1}), "same-name": ("go", {"n": 2}), "different": ("go2", {"m": 1})}[kind]]
    tasks.reset_ledger()
    run = Run(spec, make_schedule(sd))
    for at, (name, data) in zip((p1, p2), sigs):
        run.injections.setdefault(at, []).append(inj_signal("g", name, data, True))
    run.drain()
    # signals whose position lies beyond the end of the run are sent once the engine is quiet
    sent = len([1 for _s, _st, _w, op, _t, _r, mt, _p in run.w.qlog() if mt == "SignalStage" and op == "ins"])
    while sent < 2:
        name, data = sigs[sent]
        inj_signal("g", name, data, True)(run)
        sent += 1
        run.drain()
    got = run.outcome()
    nexec = got["counts"].get("g.t0", 0)
    buf = json.loads(run.w.scalar("SELECT context FROM stage_executions WHERE id = 'W1-g'") or "{}").get("_buffered_signals")
    case = {"spec": spec, "schedule": sd, "signals": [[p1, sigs[0][0], sigs[0][1]], [p2, sigs[1][0], sigs[1][1]]], "kind": "multi", "multi": [p1, p2, kind]}
    if nexec != 3 or got["stages"].get("g") != "SUCCEEDED" or got["workflow"] != "SUCCEEDED" or buf:
        c.violation(f"two-signals:{'lost' if nexec < 3 else 'duplicated' if nexec > 3 else 'not-finished'}|{kind}", case,
                    f"gate suspending twice got 2 persistent signals ({kind}): executed {nexec}x (expected 3), gate {got['stages'].get('g')}, workflow {got['workflow']}, buffer {buf}")
    c.case(("c18m", p1, p2, kind, sd), True, ["two-signals", f"two-signals:{kind}"],
           sample={"spec": "gate-twice", "signals": case["signals"], "executions": nexec, "workflow": got["workflow"]} if len(c.samples) < 2 else None)


def shard_multi(prop: str, tier: str, seed: int, n: int) -> dict[str, Any]:
    """Two persistent signals at generated positions (both before the gate starts, one each side, both after) under generated schedules."""
    c = Campaign(prop, tier, seed, LEVEL)

    @hseed(seed)
    @settings(max_examples=n, database=None, deadline=None, derandomize=False, suppress_health_check=list(HealthCheck),
              phases=[Phase.generate], report_multiple_bugs=False)
    @given(st.integers(0, 14), st.integers(0, 14), st.sampled_from(["identical", "same-name", "different"]), schedule_desc(max_len=30), st.booleans())
    def t(p1, p2, kind, sd, fifo):
        multi_case(c, p1, p2, kind, {"style": "fifo", "d": [], "R": 2} if fifo else sd)

    t()
    return c.export()


def shard_loop_gate(prop: str, tier: str, seed: int, n: int) -> dict[str, Any]:
    """A gate inside a jump loop (and one re-armed by an operator restart): every activation of the gate suspends and needs a
    signal of its own - the signal that released the previous activation must not release the next one."""
    from vlib.engine_d import inj_restart

    c = Campaign(prop, tier, seed, LEVEL)
    loop = {"name": "gate-in-loop", "stages": [stage("a", [], [ok()]), stage("g", ["a"], [{"b": "suspend", "emit": []}]),
                                               stage("r", ["g"], [{"b": "jump", "to": "a", "j": 1, "emit": []}]), stage("z", ["r"], [ok()])]}
    chain = {"name": "gate-restart", "stages": [stage("a", [], [ok()]), stage("g", ["a"], [{"b": "suspend", "emit": []}]), stage("z", ["g"], [ok()])]}

    def one(kind: str, sd: dict[str, Any]) -> None:
        spec = loop if kind == "loop" else chain
        tasks.reset_ledger()
        run = Run(spec, make_schedule(sd))
        run.drain()
        inj_signal("g", "go1", {"n": 1}, True)(run)
        run.drain()
        if kind == "restart":
            inj_restart("g")(run)
            run.drain()
        mid = run.outcome()
        case = {"kind": "loop-gate", "variant": kind, "schedule": sd, "spec": spec}
        # second activation of the gate: it must be waiting for a signal of its own
        if mid["stages"].get("g") != "SUSPENDED" or mid["workflow"] in oracles.COMPLETE:
            c.violation(f"old-signal-released-next-activation|{kind}", case,
                        f"after one signal and the re-arm of the gate: gate {mid['stages'].get('g')}, workflow {mid['workflow']}, gate executed {mid['counts'].get('g.t0', 0)}x "
                        "(the second activation did not wait for a signal of its own)")
        else:
            inj_signal("g", "go2", {"n": 2}, True)(run)
            run.drain()
            got = run.outcome()
            seen = [e["seen"].get("_signal_name") for e in tasks.ledger_snapshot() if e["stage"] == "g"]
            if got["workflow"] != "SUCCEEDED" or got["counts"].get("g.t0", 0) != 4 or seen[-1] != "go2":
                c.violation(f"second-activation-not-released|{kind}", case, f"workflow {got['workflow']}, gate executed {got['counts'].get('g.t0', 0)}x, signals seen {seen}")
        c.case(("c18lg", kind, sd), True, ["gate-reactivated", f"gate-reactivated:{kind}"])

    for kind in ("loop", "restart"):
        one(kind, {"style": "fifo", "d": [], "R": 2})

    @hseed(seed)
    @settings(max_examples=n, database=None, deadline=None, derandomize=False, suppress_health_check=list(HealthCheck),
              phases=[Phase.generate], report_multiple_bugs=False)
    @given(st.sampled_from(["loop", "restart"]), schedule_desc(max_len=40))
    def t(kind, sd):
        one(kind, sd)

    t()
    return c.export()


def shard_child_gate(prop: str, tier: str, seed: int, n: int) -> dict[str, Any]:
    """The gate is a before-stage (declared with the workflow) of a stage, alone or beside a sibling before-stage that finishes:
    it stays suspended however long the signal takes (nothing polls itself into giving up meanwhile), and the signal releases it."""
    c = Campaign(prop, tier, seed, LEVEL)
    variants = {
        "alone": {"before": ["suspend"], "after": [], "parallel": False, "pre": True},
        "beside-sibling": {"before": ["suspend", "ok"], "after": [], "parallel": True, "pre": True},
        "after-sibling": {"before": ["ok", "suspend"], "after": ["ok"], "parallel": True, "pre": True},
    }

    def one(vn: str, sd: dict[str, Any]) -> None:
        syn = variants[vn]
        gi = syn["before"].index("suspend")
        spec = {"name": f"child-gate-{vn}", "stages": [stage("a", [], [ok()]), stage("p", ["a"], [ok()], syn=syn), stage("z", ["p"], [ok()])]}
        tasks.reset_ledger()
        run = Run(spec, make_schedule(sd))
        run.drain()
        mid = run.outcome()
        child = f"p/before{gi}"
        case = {"kind": "child-gate", "variant": vn, "schedule": sd, "spec": spec}
        if mid["stages"].get(child) != "SUSPENDED" or mid["workflow"] in oracles.COMPLETE or mid["stages"].get("p") != "RUNNING":
            c.violation(f"workflow-finished-past-closed-gate|before-child:{vn}", case,
                        f"no signal was sent: gate child {child} is {mid['stages'].get(child)}, parent {mid['stages'].get('p')}, workflow {mid['workflow']}")
        else:
            inj_signal(f"p-before{gi}", "go", {"n": 1}, True)(run)
            run.drain()
            got = run.outcome()
            nexec = got["counts"].get(f"{child}.t0", 0)
            if got["workflow"] != "SUCCEEDED" or nexec != 2 or got["counts"].get("p.t0", 0) != 1:
                c.violation(f"persistent-signal:child-gate-not-released|{vn}", case,
                            f"after the signal: workflow {got['workflow']}, {child} executed {nexec}x (expected 2), parent task {got['counts'].get('p.t0', 0)}x, stages {got['stages']}")
        c.case(("c18cg", vn, sd), True, ["child-gate", f"child-gate:{vn}"],
               sample={"variant": vn, "schedule": sd, "workflow_while_waiting": mid["workflow"]} if sd["style"] == "fifo" else None)

    for vn in variants:
        one(vn, {"style": "fifo", "d": [], "R": 2})

    @hseed(seed)
    @settings(max_examples=n, database=None, deadline=None, derandomize=False, suppress_health_check=list(HealthCheck),
              phases=[Phase.generate], report_multiple_bugs=False)
    @given(st.sampled_from(sorted(variants)), schedule_desc(max_len=40))
    def t(vn, sd):
        one(vn, sd)

    t()
    return c.export()


def shard_race(prop: str, tier: str, seed: int, name: str, P: int) -> dict[str, Any]:
    """SignalStage handled concurrently with the RunTask result that suspends the gate (statement-level interleaving)."""
    from checks import c07
    from vlib.engine_i import Sched, explore, handle_one
    from vlib.world import World

    c = Campaign(prop, tier, seed, LEVEL)
    sc = c07.pair_scenarios()[name]
    prep = c07.prepare_pair(sc)
    mk = c07.make_pair_world(prep, sc)

    def j(w: World, s: Sched, pre: dict[int, int]) -> None:
        before = dict(c.buckets)
        c07.judge_pair(c, name, sc, w, s, pre, ["signal-race"])

    n = explore(mk, lambda w_: c07.pair_programs(sc), j, max_preemptions=P)
    c.extra[f"schedules:{name}"] = n
    return c.export()


def _dispatch(fn, a):  # noqa: ANN001
    return fn(*a)


def run(c: Campaign, jobs: int) -> None:
    quick = c.tier == "quick"
    args = [(shard_positions, (c.prop, c.tier, c.seed, name)) for name in gate_specs()]
    n = 800 if quick else 20000
    shards = max(1, jobs)
    args += [(shard_random, (c.prop, c.tier, c.seed * 1000 + k, max(1, n // shards))) for k in range(shards)]
    args += [(shard_multi, (c.prop, c.tier, c.seed * 1000 + 700 + k, max(1, (n // 2) // shards))) for k in range(shards)]
    args += [(shard_loop_gate, (c.prop, c.tier, c.seed * 1000 + 900 + k, 10 if quick else 300)) for k in range(2)]
    args += [(shard_child_gate, (c.prop, c.tier, c.seed * 1000 + 950 + k, 10 if quick else 300)) for k in range(2)]
    for name in gate_specs():
        args.append((shard_crash, (c.prop, c.tier, c.seed, name, True)))
        args.append((shard_crash, (c.prop, c.tier, c.seed, name, False)))
    for name in ("signal-vs-suspend-persistent", "signal-vs-suspend-transient", "signal-vs-startstage-persistent", "signal-vs-startstage-transient", "buffered-resume-vs-second-worker",
                 "signal-vs-jump-persistent", "signal-vs-jump-second-signal"):
        args.append((shard_race, (c.prop, c.tier, c.seed, name, 2 if quick else 3)))
    run_shards(c, _dispatch, args, jobs)
    c.exhaustive_parts.append("SignalStage racing the suspending RunTask result (persistent and transient): all schedules with <= 2 pre-emptions (thorough 3)")
    c.exhaustive_parts.append("signal (persistent and transient) before every delivery position of the FIFO run and of a SignalStage-hold-back schedule of 4 gate specs")
    c.rule = ("case = (gate spec, schedule, signals with position / kind / payload) or (gate spec, crash point of the signalled or un-signalled run). "
              "Non-trivial = an effective signal that was handled while the gate was NOT yet suspended (before it started or while it was running). "
              "Distinct = hash of the case.")
    c.assumptions += [
        "the gate's durable status when the SignalStage handler runs is read by the harness immediately before the delivery (single worker)",
        "the statement-level interleaving of SignalStage with the suspending RunTask result is explored within a pre-emption bound (scenario shared with C07)",
        "one signal per gate, except the two-signal shard (a gate suspending twice, two persistent signals, identical or not); SQLite only",
    ]
    for cls in ("persistent:NOT_STARTED", "persistent:RUNNING", "persistent:SUSPENDED", "transient:SUSPENDED", "transient:RUNNING", "crash", "unsignalled", "signal-race",
                "signal-after-restart", "two-signals:identical", "gate-reactivated", "child-gate"):
        if c.classes.get(cls, 0) == 0:
            c.harness_error(f"generator starvation: class {cls} never produced")


def regress(c: Campaign, rec: dict[str, Any]) -> None:
    case = rec["case"]
    spec = case["spec"]
    sd = {k: v for k, v in case["schedule"].items() if k in ("style", "d", "R", "hold", "hold_for", "hold_one", "occurrence")}
    if case.get("kind") == "multi":
        multi_case(c, case["multi"][0], case["multi"][1], case["multi"][2], sd)
        return
    if "crash_commit" in case["schedule"]:
        return
    run_, info = run_case(spec, sd, case["signals"])
    judge(c, spec, run_, sd, info, ["regression"])


def replay(c: Campaign, rec: dict[str, Any]) -> int:
    regress(c, rec)
    for b, v in c.buckets.items():
        print(f"VIOLATION property={c.prop} replay=given\n  bucket: {b}\n  detail: {v['detail']}")
    if not c.buckets:
        print("replay: no violation")
    return 1 if c.buckets else 0
