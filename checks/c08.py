"""C08 - queue: at-least-once delivery, one holder at a time, no message ever lost.

Domain: generated histories of queue operations over one table shared by two workers (SqliteQueue instances):
push (plain / transactional, immediate / delayed), poll_one, ack, reschedule, extend_lock, lock lapse and passage
of time (the harness rewrites locked_until / deliver_at), a handler that keeps failing until the attempt limit,
check_and_move_expired, move_to_dlq, replay_dlq; every message carries a unique marker in
its payload so identity survives a DLQ replay.  Every commit inside every operation is a crash point: the
conservation invariant is evaluated on the durable state right after each commit.
Oracle = reference queue model (marker -> place, due?, holder, attempts, incarnation, payload): poll_one
returns None only if nothing is deliverable, and otherwise a message that is due, not held, below the attempt
limit; a held message is never handed to anyone before its lock lapses; an un-acked message is in the queue
or the DLQ; at the limit it is not polled and the sweep moves it to the DLQ; replay re-creates it with identical
type and payload and attempts 0; conservation: each marker is in exactly one place at every commit.
"""

from __future__ import annotations

import json
import sqlite3
from datetime import timedelta
from typing import Any

from hypothesis import HealthCheck, Phase, given, seed as hseed, settings, strategies as st

from vlib.campaign import Campaign
from vlib.par import run_shards
from vlib.world import FAR_FUTURE, World

LEVEL = "exploration"
MAX = 10

OPS = ["push", "push", "push_txn", "push_delay", "poll", "poll", "poll", "ack", "ack", "resched", "resched0", "extend", "lapse", "lapse",
       "time", "failloop", "sweep", "to_dlq", "replay", "stale_ack"]


class Model:
    def __init__(self) -> None:
        self.m: dict[str, dict[str, Any]] = {}
        self.n = 0
        self.past = 0

    def new(self, due: bool, kind: str) -> str:
        self.n += 1
        marker = f"M{self.n}"
        self.m[marker] = {"place": "queue", "due": due, "holder": None, "attempts": 0, "inc": 0, "kind": kind, "corrupt": False}
        return marker

    def eligible(self) -> list[str]:
        return [k for k, v in self.m.items() if v["place"] == "queue" and v["due"] and v["holder"] is None and v["attempts"] < MAX]


def marker_of(msg: Any) -> str:
    return getattr(msg, "execution_id", None) or getattr(msg, "region", "")


def run_history(c: Campaign, ops: list[tuple[str, int, int]], case: dict[str, Any]) -> dict[str, int]:
    from stabilize import SqliteQueue
    from stabilize.queue.messages import CancelRegion, StartWorkflow

    w = World()
    q = [w.queue, SqliteQueue("sqlite:///:memory:", table_name="queue_messages")]
    mod = Model()
    handles: list[dict[str, Any]] = []  # {"worker", "msg", "marker", "inc"}
    stats = {"lapse_repoll": 0, "dlq_moves": 0, "contended_polls": 0, "replays": 0, "commits_checked": 0}
    viol: list[tuple[str, str]] = []

    def row_of(marker: str) -> Any:
        r = w.rows("SELECT id, attempts, locked_until, deliver_at FROM queue_messages WHERE payload LIKE ?", (f'%"{marker}"%',))
        return r[0] if r else None

    def conservation(where: str) -> None:
        stats["commits_checked"] += 1
        for marker, v in mod.m.items():
            nq = w.scalar("SELECT COUNT(*) FROM queue_messages WHERE payload LIKE ?", (f'%"{marker}"%',))
            nd = w.scalar("SELECT COUNT(*) FROM queue_messages_dlq WHERE payload LIKE ?", (f'%"{marker}"%',))
            if v.get("inflight"):
                continue  # its own push is in progress
            if v["place"] == "acked" or v.get("acking"):
                ok = nq + nd == 0 or (v.get("acking") and nq + nd <= 1)
            else:
                ok = nq + nd == 1
            if not ok and len(viol) < 3:
                viol.append((f"conservation|{where}", f"marker {marker} (model: {v['place']}) is in the queue {nq}x and the DLQ {nd}x {where}"))

    current_op = {"name": "init"}

    def on_commit(conn) -> None:  # noqa: ANN001
        conservation(f"after a commit inside {current_op['name']}")

    w.conn.v_on_commit = on_commit

    def lapse(marker: str, recent: bool = False) -> None:
        # recent: the lock ran out two seconds ago, written the way the engine writes it (same day, ISO 'T' form), so that
        # comparisons between stored timestamps and SQL's datetime('now') are exercised near the boundary as well
        from datetime import datetime, timezone

        ts = (datetime.now(timezone.utc) - timedelta(seconds=2)).isoformat() if recent else "2000-01-01T00:00:00+00:00"
        w._harness_sql("UPDATE queue_messages SET locked_until = ? WHERE payload LIKE ?", (ts, f'%"{marker}"%'))
        stats["lapse_recent" if recent else "lapse_long_ago"] = stats.get("lapse_recent" if recent else "lapse_long_ago", 0) + 1
        mod.m[marker]["holder"] = None
        mod.m[marker]["lapsed"] = True

    def sync_model_from_dlq_move(marker: str) -> None:
        mod.m[marker].update(place="dlq", holder=None)

    try:
        for name, a, b in ops:
            current_op["name"] = name
            live = [k for k, v in mod.m.items() if v["place"] == "queue"]
            if name in ("push", "push_txn", "push_delay"):
                due = name != "push_delay"
                marker = mod.new(due, name)
                mod.m[marker]["inflight"] = True
                msg = StartWorkflow(execution_id=marker) if a % 2 else CancelRegion(execution_id=marker, region=f"r{b}")
                mod.m[marker]["type"] = type(msg).__name__
                if name == "push_txn":
                    with w.store.transaction(w.queue) as txn:
                        txn.push_message(msg)
                else:
                    q[a % 2].push(msg, timedelta(hours=1) if name == "push_delay" else None)
                mod.m[marker]["inflight"] = False
                mod.m[marker]["payload"] = w.scalar("SELECT payload FROM queue_messages WHERE payload LIKE ?", (f'%"{marker}"%',))
            elif name == "corrupt":
                marker = mod.new(True, "corrupt")
                mod.m[marker].update(corrupt=True, type="StartWorkflow", payload=f'{{"execution_id": "{marker}"')
                w._harness_sql("INSERT INTO queue_messages (message_id, message_type, payload, deliver_at, attempts, max_attempts) "
                               "VALUES (?, 'StartWorkflow', ?, '2000-01-01T00:00:01+00:00', 0, 10)", (marker, mod.m[marker]["payload"]))
            elif name == "poll":
                wk = a % 2
                elig = mod.eligible()
                held_by_other = [k for k, v in mod.m.items() if v["place"] == "queue" and v["holder"] not in (None, wk)]
                if held_by_other and elig:
                    stats["contended_polls"] += 1
                got = q[wk].poll_one()
                if got is None:
                    moved = [k for k in elig if mod.m[k]["corrupt"] and row_of(k) is None]
                    for k in moved:
                        sync_model_from_dlq_move(k)
                        stats["dlq_moves"] += 1
                    if elig and not moved:
                        viol.append(("deliverable-not-delivered", f"poll_one returned None although {elig[:3]} are due, unheld and below the attempt limit"))
                else:
                    marker = marker_of(got)
                    v = mod.m.get(marker)
                    if v is None:
                        viol.append(("unknown-message", f"poll_one returned a message nobody pushed: {got!r}"))
                    else:
                        if v["place"] != "queue":
                            viol.append(("polled-from-wrong-place", f"{marker} delivered although the model has it in {v['place']}"))
                        if v["holder"] is not None:
                            viol.append(("two-holders", f"{marker} handed to worker {wk} while worker {v['holder']} holds it and its lock has not lapsed"))
                        if not v["due"]:
                            viol.append(("delivered-before-due", f"{marker} delivered before its delay passed"))
                        if v["attempts"] >= MAX:
                            viol.append(("polled-past-limit", f"{marker} delivered with {v['attempts']} attempts already used"))
                        if type(got).__name__ != v["type"]:
                            viol.append(("type-changed", f"{marker} delivered as {type(got).__name__}, pushed as {v['type']}"))
                        if v.get("lapsed"):
                            stats["lapse_repoll"] += 1
                            v["lapsed"] = False
                        v["holder"] = wk
                        v["attempts"] += 1
                        if got.attempts != v["attempts"]:
                            viol.append(("attempt-count", f"{marker}: message.attempts={got.attempts}, model {v['attempts']}"))
                        handles.append({"worker": wk, "msg": got, "marker": marker, "inc": v["inc"], "att": v["attempts"]})
            elif name in ("ack", "stale_ack", "resched", "resched0", "extend") and handles:
                h = handles[a % len(handles)] if name == "stale_ack" else handles[-1 - (a % min(3, len(handles)))]
                v = mod.m[h["marker"]]
                same_row = v["place"] == "queue" and v["inc"] == h["inc"]
                if name in ("ack", "stale_ack"):
                    if same_row:
                        v["acking"] = True
                    q[h["worker"]].ack(h["msg"])
                    if same_row:
                        v.update(place="acked", holder=None, acking=False)
                    handles.remove(h)
                elif name in ("resched", "resched0"):
                    q[h["worker"]].reschedule(h["msg"], timedelta(seconds=0 if name == "resched0" else 3600))
                    # a handle is stale once the message has been claimed again (attempts moved on): the current holder's lock
                    # is not the stale holder's to release
                    superseded = same_row and v["attempts"] != h.get("att", v["attempts"])
                    if superseded:
                        stats["stale_resched"] = stats.get("stale_resched", 0) + 1
                    elif same_row:
                        v.update(holder=None, due=(name == "resched0"))
                    handles.remove(h)
                else:
                    r = q[h["worker"]].extend_lock(h["msg"])
                    superseded = same_row and v["attempts"] != h.get("att", v["attempts"])
                    if superseded:
                        stats["stale_extend"] = stats.get("stale_extend", 0) + 1
                        if r:
                            viol.append(("stale-extend-accepted", f"extend_lock by a superseded holder of {h['marker']} (claimed at attempt {h.get('att')}, now {v['attempts']}) returned True"))
                    elif same_row:
                        if not r:
                            viol.append(("extend-lock-lost-row", f"extend_lock returned False for {h['marker']} which is still in the queue"))
                        v["holder"] = h["worker"] if v["holder"] is None else v["holder"]
                    elif r:
                        viol.append(("extend-lock-phantom", f"extend_lock returned True for {h['marker']} which is no longer that queue row"))
            elif name == "lapse" and live:
                lapse(live[a % len(live)], recent=bool(b & 1))
            elif name == "time" and live:
                marker = live[a % len(live)]
                mod.past += 1
                w._harness_sql("UPDATE queue_messages SET deliver_at = ? WHERE payload LIKE ?",
                               (f"2000-01-01T00:{mod.past // 60 % 60:02d}:{mod.past % 60:02d}+00:00", f'%"{marker}"%'))
                mod.m[marker]["due"] = True
            elif name == "failloop" and live:
                # a handler that keeps failing: poll + reschedule(0) until the attempt limit is reached
                marker = live[a % len(live)]
                v = mod.m[marker]
                if v["corrupt"]:
                    continue
                others = [k for k in live if k != marker]
                w._harness_sql("UPDATE queue_messages SET deliver_at = ? WHERE payload NOT LIKE ?", (FAR_FUTURE, f'%"{marker}"%'))
                for k in others:
                    mod.m[k]["due"] = False
                lapse(marker)
                w._harness_sql("UPDATE queue_messages SET deliver_at = '2000-01-01T00:00:00+00:00' WHERE payload LIKE ?", (f'%"{marker}"%',))
                v["due"] = True
                guard = 0
                while v["attempts"] < MAX and guard < 15:
                    guard += 1
                    got = q[b % 2].poll_one()
                    if got is None:
                        viol.append(("deliverable-not-delivered", f"failing message {marker} not redelivered at attempt {v['attempts']}"))
                        break
                    v["attempts"] += 1
                    q[b % 2].reschedule(got, timedelta(seconds=0))
                if v["attempts"] >= MAX and q[b % 2].poll_one() is not None:
                    viol.append(("polled-past-limit", f"{marker} delivered again after {MAX} attempts"))
                v["holder"] = None
            elif name == "sweep":
                expect = [k for k, v in mod.m.items() if v["place"] == "queue" and v["attempts"] >= MAX]
                n = q[a % 2].check_and_move_expired()
                for k in expect:
                    sync_model_from_dlq_move(k)
                    stats["dlq_moves"] += 1
                if n != len(expect):
                    viol.append(("sweep-count", f"check_and_move_expired moved {n}, model expected {len(expect)} ({expect[:3]})"))
            elif name == "to_dlq" and live:
                marker = live[a % len(live)]
                r = row_of(marker)
                if r is not None:
                    q[b % 2].move_to_dlq(r[0], error="operator")
                    sync_model_from_dlq_move(marker)
                    stats["dlq_moves"] += 1
            elif name == "replay":
                dl = [k for k, v in mod.m.items() if v["place"] == "dlq"]
                if dl:
                    marker = dl[a % len(dl)]
                    did = w.scalar("SELECT id FROM queue_messages_dlq WHERE payload LIKE ?", (f'%"{marker}"%',))
                    if did is None:
                        viol.append(("dlq-lost", f"{marker} should be in the DLQ but is not"))
                    else:
                        okk = q[b % 2].replay_dlq(did)
                        v = mod.m[marker]
                        if not okk:
                            viol.append(("replay-failed", f"replay_dlq({did}) returned False for {marker}"))
                        else:
                            v.update(place="queue", holder=None, attempts=0, due=True, inc=v["inc"] + 1)
                            stats["replays"] += 1
                            r = w.rows("SELECT message_type, payload, attempts FROM queue_messages WHERE payload LIKE ?", (f'%"{marker}"%',))
                            if not r or r[0][0] != v["type"] or r[0][1] != v["payload"] or r[0][2] != 0:
                                viol.append(("replay-changed-message", f"{marker} after replay: {tuple(r[0]) if r else None}, pushed as ({v['type']}, {v['payload']}, attempts 0)"))
            current_op["name"] = f"{name} (done)"
            conservation(f"after {name}")
            # table vs model: places, attempts
            for marker, v in mod.m.items():
                if v["place"] == "queue":
                    r = row_of(marker)
                    if r is not None and r[1] != v["attempts"] and len(viol) < 3:
                        viol.append(("attempts-column", f"{marker}: row attempts={r[1]}, model {v['attempts']} after {name}"))
            if viol:
                break
    finally:
        w.conn.v_on_commit = None
    for bucket, detail in viol[:3]:
        c.violation(bucket, case, detail)
    return stats


def shard(prop: str, tier: str, seed: int, n: int, steps: int) -> dict[str, Any]:
    c = Campaign(prop, tier, seed, LEVEL)
    op = st.tuples(st.sampled_from(OPS), st.integers(0, 11), st.integers(0, 5))

    @hseed(seed)
    @settings(max_examples=n, database=None, deadline=None, derandomize=False, suppress_health_check=list(HealthCheck),
              phases=[Phase.generate], report_multiple_bugs=False)
    @given(st.lists(op, min_size=5, max_size=steps))
    def t(ops):
        case = {"ops": [list(o) for o in ops]}
        stats = run_history(c, ops, case)
        nontrivial = stats["lapse_repoll"] > 0 or stats["dlq_moves"] > 0 or stats["contended_polls"] > 0
        cls = ["history"] + [k for k, v in stats.items() if v and k != "commits_checked"]
        c.case(("c08", ops), nontrivial, cls, sample={"ops": [o[0] for o in ops], "stats": stats} if nontrivial and len(ops) < 25 else None)
        c.count("commit-points-checked", stats["commits_checked"])

    t()
    return c.export()


FIXED = [
    # a message that keeps failing reaches the limit, is swept to the DLQ, replayed and delivered again
    [("push", 1, 0), ("failloop", 0, 0), ("sweep", 0, 0), ("replay", 0, 0), ("poll", 0, 0), ("ack", 0, 0)],
    # lock lapse: worker 0 holds, lock lapses, worker 1 re-claims, stale ack of worker 0
    [("push", 1, 0), ("poll", 0, 0), ("poll", 1, 0), ("lapse", 0, 0), ("poll", 1, 0), ("stale_ack", 0, 0), ("poll", 0, 0)],
    # operator move + replay while a worker holds the message
    [("push_txn", 0, 1), ("poll", 0, 0), ("to_dlq", 0, 1), ("ack", 0, 0), ("replay", 0, 0), ("poll", 1, 0), ("extend", 0, 0), ("resched", 0, 0), ("time", 0, 0), ("poll", 0, 0)],
]


def shard_fixed(prop: str, tier: str, seed: int) -> dict[str, Any]:
    c = Campaign(prop, tier, seed, LEVEL)
    for ops in FIXED:
        stats = run_history(c, ops, {"ops": [list(o) for o in ops]})
        c.case(("c08f", ops), True, ["fixed-history"] + [k for k, v in stats.items() if v and k != "commits_checked"])
    return c.export()


def shard_pollers(prop: str, tier: str, seed: int, nmsg: int, nworkers: int, with_sweep: bool, P: int, only: dict[int, int] | None = None) -> dict[str, Any]:
    """2-3 workers polling one table at the same time (plus the DLQ sweep / a lock heartbeat), all schedules with <= P pre-emptions."""
    from stabilize.queue.messages import StartWorkflow

    from vlib.engine_i import Sched, explore
    from vlib.world import LONG_AGO

    c = Campaign(prop, tier, seed, LEVEL)
    holder: dict[str, Any] = {}

    def mk() -> World:
        w = World(share_connection=True)
        for i in range(nmsg):
            w.queue.push(StartWorkflow(execution_id=f"M{i}"))
        if with_sweep:
            w.queue.push(StartWorkflow(execution_id="OLD"))
            w._harness_sql("UPDATE queue_messages SET attempts = 10 WHERE payload LIKE '%\"OLD\"%'")
        w._harness_sql("UPDATE queue_messages SET deliver_at = ?", (LONG_AGO,))
        holder["got"] = {}
        return w

    def poller(i: int):
        def prog(s: Sched, idx: int) -> None:
            m = s.w.queue.poll_one()
            if m is None:  # lost a claim race: a real worker polls again on its next cycle
                m = s.w.queue.poll_one()
            holder["got"][i] = marker_of(m) if m is not None else None
            if m is not None and i == 0:
                s.w.queue.extend_lock(m)
        return prog

    def sweeper(s: Sched, idx: int) -> None:
        s.w.queue.check_and_move_expired()

    def progs(w: World):
        ps = [poller(i) for i in range(nworkers)]
        if with_sweep:
            ps.append(sweeper)
        return ps

    def judge(w: World, s: Sched, pre: dict[int, int]) -> None:
        got = holder["got"]
        case = {"kind": "pollers", "messages": nmsg, "workers": nworkers, "sweep": with_sweep, "preemptions": {str(k): v for k, v in sorted(pre.items())}}
        vals = [v for v in got.values() if v is not None]
        if len(vals) != len(set(vals)):
            c.violation("two-holders|concurrent-pollers", case, f"the same message was handed to two workers: {got}")
        if "OLD" in vals:
            c.violation("polled-past-limit|concurrent-pollers", case, f"a message at its attempt limit was delivered: {got}")
        if len(vals) < min(nmsg, nworkers):
            c.violation("deliverable-not-delivered|concurrent-pollers", case, f"{nmsg} deliverable messages, {nworkers} workers polling twice each, but only {vals} were delivered")
        for i in range(nmsg):
            nq = w.scalar("SELECT COUNT(*) FROM queue_messages WHERE payload LIKE ?", (f'%"M{i}"%',))
            nd = w.scalar("SELECT COUNT(*) FROM queue_messages_dlq WHERE payload LIKE ?", (f'%"M{i}"%',))
            if nq + nd != 1:
                c.violation("conservation|concurrent-pollers", case, f"M{i} is in the queue {nq}x and the DLQ {nd}x")
        if with_sweep:
            nq = w.scalar("SELECT COUNT(*) FROM queue_messages WHERE payload LIKE '%\"OLD\"%'")
            nd = w.scalar("SELECT COUNT(*) FROM queue_messages_dlq WHERE payload LIKE '%\"OLD\"%'")
            if (nq, nd) != (0, 1):
                c.violation("sweep-lost-or-kept|concurrent-pollers", case, f"exhausted message: queue {nq}x, DLQ {nd}x after the sweep")
        if s.errors:
            c.violation("poller-raised|concurrent-pollers", case, f"{s.errors[:2]}")
        c.case(("c08b", nmsg, nworkers, with_sweep, sorted(pre.items())), bool(pre) and s.switches > 0,
               ["concurrent-pollers", "contended_polls", f"pollers:{nworkers}", "with-sweep" if with_sweep else "no-sweep"],
               sample={"messages": nmsg, "workers": nworkers, "preemptions": case["preemptions"], "delivered": {str(k): v for k, v in got.items()}} if pre and len(c.samples) < 2 else None)

    n = explore(mk, progs, judge, max_preemptions=0 if only is not None else P, roots=[only] if only is not None else None)
    c.extra[f"schedules:pollers:{nmsg}m{nworkers}w{'s' if with_sweep else ''}"] = n
    return c.export()


def shard_movers(prop: str, tier: str, seed: int, scenario: str, P: int, only: dict[int, int] | None = None) -> dict[str, Any]:
    """Concurrent movers between the queue and the DLQ: two sweeps, a sweep beside an explicit move_to_dlq, two replays
    of one DLQ entry, a replay beside a sweep - all schedules with <= P pre-emptions; each marker must end in exactly one place."""
    from stabilize.queue.messages import StartWorkflow

    from vlib.engine_i import Sched, explore
    from vlib.world import LONG_AGO

    c = Campaign(prop, tier, seed, LEVEL)
    holder: dict[str, Any] = {}
    markers = ["OLD0", "OLD1", "LIVE", "DEAD"]

    def mk() -> World:
        w = World(share_connection=True)
        for m in ("OLD0", "OLD1", "LIVE", "DEAD"):
            w.queue.push(StartWorkflow(execution_id=m))
        w._harness_sql("UPDATE queue_messages SET attempts = 10 WHERE payload LIKE '%\"OLD%'")
        w._harness_sql("UPDATE queue_messages SET deliver_at = ?", (LONG_AGO,))
        dead = w.scalar("SELECT id FROM queue_messages WHERE payload LIKE '%\"DEAD\"%'")
        w.queue.move_to_dlq(dead, "setup")
        holder["old0"] = w.scalar("SELECT id FROM queue_messages WHERE payload LIKE '%\"OLD0\"%'")
        holder["dlq_id"] = w.scalar("SELECT id FROM queue_messages_dlq WHERE payload LIKE '%\"DEAD\"%'")
        holder["ret"] = {}
        return w

    def sweeper(s: Sched, idx: int) -> None:
        holder["ret"][idx] = s.w.queue.check_and_move_expired()

    def mover(s: Sched, idx: int) -> None:
        s.w.queue.move_to_dlq(holder["old0"], "explicit")

    def replayer(s: Sched, idx: int) -> None:
        holder["ret"][idx] = s.w.queue.replay_dlq(holder["dlq_id"])

    programs = {"two-sweeps": [sweeper, sweeper], "sweep+move": [sweeper, mover], "two-replays": [replayer, replayer],
                "replay+sweep": [replayer, sweeper], "three-sweeps": [sweeper, sweeper, sweeper]}[scenario]

    def judge(w: World, s: Sched, pre: dict[int, int]) -> None:
        case = {"kind": "movers", "scenario": scenario, "preemptions": {str(k): v for k, v in sorted(pre.items())}}
        places = {}
        for m in markers:
            nq = w.scalar("SELECT COUNT(*) FROM queue_messages WHERE payload LIKE ?", (f'%"{m}"%',))
            nd = w.scalar("SELECT COUNT(*) FROM queue_messages_dlq WHERE payload LIKE ?", (f'%"{m}"%',))
            places[m] = (nq, nd)
            if nq + nd != 1:
                c.violation(f"conservation|concurrent-movers|{scenario}", case, f"{m} is in the queue {nq}x and the DLQ {nd}x")
        if "sweep" in scenario and (places["OLD0"], places["OLD1"]) != ((0, 1), (0, 1)):
            c.violation(f"sweep-lost-or-kept|concurrent-movers|{scenario}", case, f"exhausted messages after the sweeps: {places}")
        if places["LIVE"] != (1, 0):
            c.violation(f"live-message-moved|concurrent-movers|{scenario}", case, f"a message below its limit: {places['LIVE']}")
        if "replay" in scenario:
            if places["DEAD"] != (1, 0):
                c.violation(f"replay-lost-or-duplicated|concurrent-movers|{scenario}", case, f"replayed entry: queue/DLQ {places['DEAD']}")
            oks = [v for v in holder["ret"].values() if v is True]
            if scenario == "two-replays" and len(oks) != 1:
                c.violation(f"replay-reported-twice|concurrent-movers|{scenario}", case, f"replay_dlq returned {holder['ret']}")
        if s.errors:
            c.violation(f"mover-raised|concurrent-movers|{scenario}", case, f"{s.errors[:2]}")
        c.case(("c08m", scenario, sorted(pre.items())), bool(pre) and s.switches > 0, ["concurrent-movers", f"movers:{scenario}"],
               sample={"scenario": scenario, "preemptions": case["preemptions"], "places": {k: list(v) for k, v in places.items()}} if pre and len(c.samples) < 1 else None)

    n = explore(mk, lambda w: list(programs), judge, max_preemptions=0 if only is not None else P, roots=[only] if only is not None else None)
    c.extra[f"schedules:movers:{scenario}"] = n
    return c.export()


def shard_limits(prop: str, tier: str, seed: int) -> dict[str, Any]:
    """Queues configured with a lower attempt limit than the default: a message that keeps failing must reach the DLQ
    at THAT limit however it entered the queue (plain push, transactional push, DLQ replay) - never sit there undeliverable."""
    from stabilize import SqliteQueue
    from stabilize.queue.messages import StartWorkflow

    c = Campaign(prop, tier, seed, LEVEL)
    for limit in (1, 2, 3, 5, 10, 12):
        for how in ("push", "push_txn", "replay"):
            w = World()
            q = SqliteQueue("sqlite:///:memory:", table_name="queue_messages", max_attempts=limit)
            case = {"kind": "limits", "limit": limit, "entered_by": how}
            msg = StartWorkflow(execution_id="L1")
            if how == "push_txn":
                with w.store.transaction(q) as txn:
                    txn.push_message(msg)
            else:
                q.push(msg)
            if how == "replay":
                rid = w.scalar("SELECT id FROM queue_messages")
                q.move_to_dlq(rid, "setup")
                q.replay_dlq(w.scalar("SELECT id FROM queue_messages_dlq"))
            polls = 0
            for _ in range(limit + 3):
                w._harness_sql("UPDATE queue_messages SET deliver_at = '2000-01-01T00:00:00+00:00', locked_until = NULL")
                m = q.poll_one()
                if m is None:
                    break
                polls += 1
                q.reschedule(m, timedelta(seconds=0))
            moved = q.check_and_move_expired()
            nq = w.scalar("SELECT COUNT(*) FROM queue_messages")
            nd = w.scalar("SELECT COUNT(*) FROM queue_messages_dlq")
            if polls != limit:
                c.violation(f"limit-delivery-count|{how}", case, f"attempt limit {limit}: the failing message was delivered {polls}x")
            if (nq, nd) != (0, 1):
                c.violation(f"limit-not-dead-lettered|{how}", case,
                            f"attempt limit {limit}, message entered by {how}: after {polls} failed deliveries poll_one returns nothing, the sweep moved {moved}; queue {nq}, DLQ {nd}")
            c.case(("c08l", limit, how), limit != 10, ["attempt-limit", f"limit:{limit}", f"entered-by:{how}"])
    return c.export()


TZ_PROBE = r"""
import json, sys
from datetime import timedelta
from vlib.world import World
from stabilize import SqliteQueue
from stabilize.queue.messages import StartWorkflow
out = []
w = World()
q2 = SqliteQueue("sqlite:///:memory:", table_name="queue_messages")
w.queue.push(StartWorkflow(execution_id="NOW"))
a = w.queue.poll_one()
if a is None:
    out.append(["deliverable-not-delivered", "a message pushed without delay is not delivered"])
else:
    b = q2.poll_one()
    if b is not None:
        out.append(["two-holders", "a freshly claimed message (lock 60 s) was handed to a second worker at once"])
    w.queue.ack(a)
w.queue.push(StartWorkflow(execution_id="LATER"), timedelta(hours=1))
c = w.queue.poll_one()
if c is not None:
    out.append(["delivered-before-due", "a message pushed with a delay of one hour was delivered immediately"])
print("TZPROBE " + json.dumps(out))
"""


def shard_tz(prop: str, tier: str, seed: int) -> dict[str, Any]:
    """The queue's clock arithmetic must not depend on the process time zone: the same three-step probe (claim excludes a second
    poller; an undelayed message is deliverable; a delayed one is not) in sub-processes with TZ west and east of UTC."""
    import os
    import subprocess
    import sys

    c = Campaign(prop, tier, seed, LEVEL)
    for tz in ("UTC", "EST5EDT", "CET-1CEST", "JST-9", "NZST-12NZDT"):
        env = dict(os.environ)
        env["TZ"] = tz
        r = subprocess.run([sys.executable, "-c", TZ_PROBE], env=env, capture_output=True, text=True, timeout=120)
        line = [ln for ln in r.stdout.splitlines() if ln.startswith("TZPROBE ")]
        if not line:
            c.harness_error(f"tz probe {tz} produced no result: {r.stderr[-300:]}")
            continue
        for bucket, detail in json.loads(line[0][len("TZPROBE "):]):
            c.violation(f"{bucket}|tz", {"kind": "tz", "tz": tz}, f"TZ={tz}: {detail}")
        c.case(("c08tz", tz), tz != "UTC", ["time-zone", f"tz:{tz}"])
    return c.export()


def _dispatch(fn, a):  # noqa: ANN001
    return fn(*a)


def run(c: Campaign, jobs: int) -> None:
    quick = c.tier == "quick"
    n = 9600 if quick else 200000
    steps = 40 if quick else 80
    shards = max(1, jobs)
    args = [(shard, (c.prop, c.tier, c.seed * 1000 + k, max(1, n // shards), steps)) for k in range(shards)]
    args.append((shard_fixed, (c.prop, c.tier, c.seed)))
    args.append((shard_limits, (c.prop, c.tier, c.seed)))
    args.append((shard_tz, (c.prop, c.tier, c.seed)))
    for nmsg, nw, sw, P in ((1, 2, False, 3), (2, 2, False, 3), (1, 3, False, 2), (2, 2, True, 2), (2, 3, True, 1)):
        args.append((shard_pollers, (c.prop, c.tier, c.seed, nmsg, nw, sw, P if quick else P + 1)))
    for scenario, P in (("two-sweeps", 3), ("sweep+move", 3), ("two-replays", 3), ("replay+sweep", 3), ("three-sweeps", 2)):
        args.append((shard_movers, (c.prop, c.tier, c.seed, scenario, P if quick else P + 1)))
    run_shards(c, _dispatch, args, jobs)
    c.exhaustive_parts.append("concurrent movers: two / three DLQ sweeps, sweep beside move_to_dlq, two replays of one DLQ entry, replay beside a sweep - all schedules within the pre-emption bound")
    c.exhaustive_parts.append("concurrent pollers: 5 configurations (1-2 messages x 2-3 workers, with/without the DLQ sweep and a lock heartbeat), all schedules within the pre-emption bound")
    c.rule = ("case = one history of <= 40 (thorough 80) queue operations by two workers, judged against the reference queue model after every operation "
              "and, for conservation, after every commit inside every operation. Non-trivial = the history contains a lock lapse followed by a re-poll, "
              "a move to the DLQ, or a poll while the other worker holds a message. Distinct = hash of the operation list.")
    c.assumptions += [
        "time is owned by the harness: delays and lock expiry happen only when the harness rewrites deliver_at / locked_until; the main process runs with TZ=UTC, "
        "a three-step probe (claim excludes a second poller, undelayed deliverable, delayed not) runs in sub-processes under four other time zones",
        "generated histories use the default limits (queue and message max_attempts 10); other queue limits (1, 2, 3, 5, 12) are covered by the attempt-limit grid; ties on deliver_at are not ordered by the model",
        "sequential histories use two SqliteQueue instances on one connection; concurrent pollers (2-3 workers, optional DLQ sweep / heartbeat) run under the interleaving engine with a bounded number of pre-emptions",
        "a stale holder's ack deletes the row another worker now holds: at-least-once, recorded as acknowledged (not loss)",
    ]
    for cls in ("lapse_repoll", "dlq_moves", "contended_polls", "replays", "fixed-history", "concurrent-movers", "attempt-limit"):
        if c.classes.get(cls, 0) == 0:
            c.harness_error(f"generator starvation: class {cls} never produced")


def regress(c: Campaign, rec: dict[str, Any]) -> None:
    case = rec["case"]
    if case.get("kind") in ("movers", "pollers"):
        only = {int(k): v for k, v in case["preemptions"].items()}
        if case["kind"] == "movers":
            c.merge(shard_movers(c.prop, c.tier, c.seed, case["scenario"], 0, only))
        else:
            c.merge(shard_pollers(c.prop, c.tier, c.seed, case["messages"], case["workers"], case["sweep"], 0, only))
        return
    ops = [tuple(o) for o in rec["case"]["ops"]]
    run_history(c, ops, rec["case"])


def replay(c: Campaign, rec: dict[str, Any]) -> int:
    regress(c, rec)
    for b, v in c.buckets.items():
        print(f"VIOLATION property={c.prop} replay=given\n  bucket: {b}\n  detail: {v['detail']}")
    if not c.buckets:
        print("replay: no violation")
    return 1 if c.buckets else 0
