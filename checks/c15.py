"""C15 - jump loops are bounded and always terminate.

Domain: loop shape (self loop; 2-, 3-, 4-stage cycle; loop with side branch and fan-in; forward jump over
a diamond; unknown target; two routers; nested loops; random DAG with a random back edge) x requested jumps
(0 .. beyond the limit, "always") x max-jumps setting (unset = 10, 0, 1, 2, 3) x delivery schedule (FIFO,
shuffled, lost acks, hold-back).
Oracle: the independent loop model of vlib/loopmodel.py - applied jumps = min(requested, budget); a request
beyond the budget (or to an unknown stage) ends the source TERMINAL and the workflow TERMINAL; every
iteration re-runs exactly the re-arm set once (execution counts per stage equal the model's); bypassed
stages of a forward jump end SKIPPED and never execute; the number of jump requests handled equals
applied + rejected; the run reaches quiescence within a step bound derived from the model.
"""

from __future__ import annotations

from typing import Any

from hypothesis import HealthCheck, Phase, given, seed as hseed, settings, strategies as st

from vlib import oracles, tasks
from vlib.campaign import Campaign
from vlib.engine_d import Run
from vlib.loopmodel import loop_model
from vlib.par import run_shards
from vlib.sched import make_schedule, schedule_desc
from vlib.spec import LOOP_SHAPES, dag_spec, descendants, make_loop, ok, stage

LEVEL = "exploration"


def resettable(spec: dict[str, Any], target: str) -> set[str]:
    """The stages that depend only on ``target`` (fan-in aware fixed point), excluding the target."""
    scope = {target}
    grew = True
    while grew:
        grew = False
        for s in spec["stages"]:
            if s["ref"] not in scope and s["req"] and all(r in scope for r in s["req"]):
                scope.add(s["ref"])
                grew = True
    return scope - {target}


def rearm_clauses(spec: dict[str, Any], run: Run) -> list[tuple[str, str]]:
    """"A backward jump re-arms exactly the target and the stages that depend only on it": judged on the durable status
    writes of every applied backward jump (audit rows written while JumpToStage was handled)."""
    import json as _json

    refs = {s["ref"] for s in spec["stages"]}
    audit = run.w.audit()
    payloads = {}
    for _seq, _step, _writer, op, _tbl, row_id, mtype, payload in run.w.qlog():
        if mtype == "JumpToStage" and op == "ins":
            try:
                payloads[row_id] = _json.loads(payload)
            except Exception:  # noqa: BLE001
                pass
    by_step: dict[int, dict[str, Any]] = {}
    for step, typ, row_id, _acked in run.deliveries:
        if typ == "JumpToStage" and row_id in payloads:
            by_step[step] = payloads[row_id]
    status = {r: "NOT_STARTED" for r in refs}
    out: list[tuple[str, str]] = []
    i = 0
    while i < len(audit):
        seq, step, writer, kind, ident, old, new = audit[i]
        if writer == "JumpToStage" and kind == "stage" and step in by_step:
            j = i
            rows = []
            while j < len(audit) and audit[j][1] == step and audit[j][2] == "JumpToStage":
                if audit[j][3] == "stage":
                    rows.append(audit[j])
                j += 1
            p = by_step[step]
            target = p.get("target_stage_ref_id")
            source = (p.get("stage_id") or "").replace("W1-", "")
            rearmed = {r[4].replace("W1-", "") for r in rows if r[6] == "NOT_STARTED"} & refs
            if target in refs and target in rearmed | {x for x in refs if status[x] == "NOT_STARTED"} and rearmed:
                expected = ({target} | resettable(spec, target)) - {source}
                must = {x for x in expected if status[x] != "NOT_STARTED"}
                missing = sorted(must - rearmed)
                extra = sorted(rearmed - expected - {source})
                if missing:
                    out.append(("rearm-set-missing", f"jump {source} -> {target} (step {step}) did not re-arm {missing} (status then: {[status[x] for x in missing]}); re-armed {sorted(rearmed)}"))
                if extra:
                    out.append(("rearm-set-extra", f"jump {source} -> {target} (step {step}) re-armed {extra}, which do not depend only on the target"))
            for r in rows:
                rid = r[4].replace("W1-", "")
                if rid in status:
                    status[rid] = r[6]
            i = j
            continue
        if kind == "stage":
            rid = ident.replace("W1-", "")
            if rid in status and new is not None:
                status[rid] = new
        i += 1
    return out


def stale_completion_clauses(spec: dict[str, Any], run: Run, got: dict[str, Any]) -> list[tuple[str, str]]:
    """"every iteration re-runs each of them": a re-armed stage that ends SUCCEEDED must have executed its tasks after its last
    re-arm - a completion message of the previous iteration may not stand in for the run of the new one."""
    last_rearm: dict[str, int] = {}
    for _seq, step, writer, kind, ident, _old, new in run.w.audit():
        if kind == "stage" and new == "NOT_STARTED" and writer in ("JumpToStage", "RestartStage"):
            last_rearm[ident.replace("W1-", "")] = step
    led = tasks.ledger_snapshot()
    out = []
    for s in spec["stages"]:
        r = s["ref"]
        if r not in last_rearm or got["stages"].get(r) != "SUCCEEDED":
            continue
        for i, _t in enumerate(s["tasks"]):
            if not any(e["stage"] == r and e["task"] == i and e["step"] > last_rearm[r] for e in led):
                out.append(("completed-without-running-after-rearm", f"stage {r} was re-armed at step {last_rearm[r]} and ended SUCCEEDED, but its task t{i} did not execute after that "
                            f"(executions at steps {[e['step'] for e in led if e['stage'] == r and e['task'] == i]})"))
                break
    return out


def judge(c: Campaign, spec: dict[str, Any], run: Run, desc: Any, extra=()) -> None:
    model = loop_model(spec)
    got = run.outcome()
    viol: list[tuple[str, str]] = []
    if model["diverged"]:
        c.harness_error(f"loop model diverged on {spec['name']}")
        return
    stuck = oracles.diagnose_stuck(run) if got["workflow"] not in oracles.COMPLETE else ""
    if run.step_bound_hit:
        viol.append(("no-termination", f"still deliverable messages after {run.steps} deliveries (model expects {sum(model['execs'].values())} executions)"))
    if got["workflow"] != model["workflow"]:
        viol.append(("workflow-status" + (f"|stuck:{stuck}" if stuck else ""), f"workflow {got['workflow']}, model {model['workflow']}"))
    racy = set(model["racy"])
    for r, want in model["stages"].items():
        have = got["stages"].get(r)
        if r in racy:
            if have not in {want, "CANCELED", "NOT_STARTED"}:
                viol.append(("stage-status", f"{r}: {have} not in {{{want}, CANCELED, NOT_STARTED}}"))
        elif have != want:
            viol.append(("stage-status" + (f"|stuck:{stuck}" if stuck else ""), f"{r}: {have}, model {want}"))
    for r, want in model["execs"].items():
        have = got["counts"].get(f"{r}.t0", 0)
        if r in racy:
            cap = max(want, model["applied"] + 1) if r in model.get("concurrent", ()) else want
            if have > cap:
                viol.append(("extra-execution", f"{r}: executed {have}x, model allows at most {cap}x"))
        elif r in model.get("concurrent", ()):
            if not (1 <= have <= model["applied"] + 1):
                viol.append(("extra-execution", f"{r}: re-armed sibling executed {have}x, model allows 1..{model['applied'] + 1}"))
        elif have != want:
            kind = "extra-execution" if have > want else "missing-execution"
            viol.append((kind + (f"|stuck:{stuck}" if stuck and have < want else ""), f"{r}: executed {have}x, model {want}x"))
    viol.extend(rearm_clauses(spec, run))
    viol.extend(stale_completion_clauses(spec, run, got))
    ids: dict[str, int] = {}
    for mid, typ in run.w.handler_calls:
        if typ == "JumpToStage":
            ids[mid] = ids.get(mid, 0) + 1
    if len(ids) != model["applied"] + model["rejected"] and not stuck:
        viol.append(("jump-requests-handled", f"{len(ids)} JumpToStage messages handled, model {model['applied']} applied + {model['rejected']} rejected"))
    case = {"spec": spec, "schedule": desc}
    if stuck and viol:
        c.violation(f"stuck|{stuck}", case, "; ".join(d for _c, d in viol)[:400])
    else:
        for clause, detail in viol:
            c.violation(clause, case, detail, sig={"shape": (spec.get("loop") or {}).get("shape")})
    lp = spec.get("loop") or {}
    boundary = lp.get("shape") in ("side", "fwd", "mid_target", "nested", "random-back-edge")
    nontrivial = model["applied"] >= 2 or (model["applied"] >= 1 and boundary)
    c.case(("c15", spec, desc), nontrivial,
           [f"shape:{lp.get('shape')}", f"applied:{min(model['applied'], 11)}", f"budget:{spec.get('max_jumps')}",
            "limit-reached" if model["rejected"] else "within-budget"] + list(extra),
           sample={"spec": spec["name"], "schedule": desc, "model": {k: model[k] for k in ("workflow", "execs", "applied", "rejected")},
                   "engine": {"workflow": got["workflow"], "counts": got["counts"]}} if nontrivial else None)


@st.composite
def random_back_edge(draw) -> dict[str, Any]:
    """Random loop by construction: prefix -> target t -> body (parents inside the loop only) -> source r (jumps to t),
    outside siblings hanging off prefix/loop stages, tail joining r and the siblings.  The loop body has no fan-in
    from outside the loop (the statement's shapes; see DESIGN.md, C15 notes)."""
    k = draw(st.integers(0, 2))
    stages = []
    prefix = []
    for i in range(k):
        req = [prefix[-1]] if prefix and draw(st.booleans()) else []
        stages.append(stage(f"p{i}", req, [ok()]))
        prefix.append(f"p{i}")
    treq = draw(st.lists(st.sampled_from(prefix), unique=True, max_size=2)) if prefix else []
    stages.append(stage("t", sorted(treq), [ok()]))
    inside = ["t"]
    for i in range(draw(st.integers(0, 3))):
        req = draw(st.lists(st.sampled_from(inside), unique=True, min_size=1, max_size=2))
        stages.append(stage(f"b{i}", sorted(req), [ok()]))
        inside.append(f"b{i}")
    j = draw(st.integers(0, 3))
    rreq = draw(st.lists(st.sampled_from(inside), unique=True, min_size=1, max_size=2))
    selfloop = len(inside) == 1 and draw(st.booleans())
    outs = []
    if selfloop:
        stages[-1]["tasks"] = [{"b": "jump", "to": "t", "j": j}]
        src = "t"
    else:
        stages.append(stage("r", sorted(rreq), [{"b": "jump", "to": "t", "j": j}]))
        src = "r"
    for i in range(draw(st.integers(0, 2))):
        pool = prefix + inside
        req = draw(st.lists(st.sampled_from(pool), unique=True, min_size=1, max_size=2))
        stages.append(stage(f"o{i}", sorted(req), [ok()]))
        outs.append(f"o{i}")
    if draw(st.booleans()):
        zreq = [src] + draw(st.lists(st.sampled_from(outs), unique=True, max_size=2)) if outs else [src]
        stages.append(stage("z", sorted(set(zreq)), [ok()]))
    mj = draw(st.sampled_from([None, 1, 2, 3]))
    return {"name": f"rbe-j{j}-m{mj}", "stages": stages, "max_jumps": mj, "loop": {"shape": "random-back-edge", "j": j}}


@st.composite
def loop_case(draw) -> dict[str, Any]:
    if draw(st.integers(0, 4)) == 0:
        return draw(random_back_edge())
    shape = draw(st.sampled_from(LOOP_SHAPES))
    mj = draw(st.sampled_from([None, None, 0, 1, 2, 3]))
    j = draw(st.sampled_from([-1, 0, 1, 2, 3, 4, 5]))
    if mj is None and (j < 0 or j > 3) and draw(st.integers(0, 3)) != 0:
        mj = draw(st.integers(0, 3))  # keep most default-budget exhaustion runs (11 iterations) out of the quick budget
    return make_loop(shape, j, mj, tail=draw(st.booleans()))


def shard(prop: str, tier: str, seed: int, n: int) -> dict[str, Any]:
    c = Campaign(prop, tier, seed, LEVEL)

    @hseed(seed)
    @settings(max_examples=n, database=None, deadline=None, derandomize=False, suppress_health_check=list(HealthCheck),
              phases=[Phase.generate], report_multiple_bugs=False)
    @given(loop_case(), st.one_of(st.just({"style": "fifo", "d": [], "R": 2}), schedule_desc(), schedule_desc()))
    def t(spec, sd):
        model = loop_model(spec)
        bound = 60 * (sum(model["execs"].values()) + len(spec["stages"]) + 5) * 4
        run = Run(spec, make_schedule(sd), max_steps=bound).drain()
        judge(c, spec, run, sd, [f"style:{sd['style']}"])

    t()
    return c.export()


def shard_grid(prop: str, tier: str, seed: int, shape: str) -> dict[str, Any]:
    """FIFO grid: every shape x requested jumps x budget (the statement's 'every requested iteration count, every max-jumps setting')."""
    c = Campaign(prop, tier, seed, LEVEL)
    for mj in (None, 0, 1, 2, 3):
        for j in (-1, 0, 1, 2, 3, 4, 11, 12):
            if mj is not None and j in (11, 12):
                continue
            spec = make_loop(shape, j, mj)
            model = loop_model(spec)
            run = Run(spec, max_steps=60 * (sum(model["execs"].values()) + 10) * 2).drain()
            judge(c, spec, run, {"style": "fifo", "d": [], "R": 2}, ["grid"])
    return c.export()


def shard_straggler(prop: str, tier: str, seed: int, shape: str) -> dict[str, Any]:
    """One long-delayed message: every (message type, k-th occurrence, delay) of a single straggler that survives the jump
    and arrives in the next iteration, for the shapes in which stages beside the router are re-armed."""
    c = Campaign(prop, tier, seed, LEVEL)
    for j in ((1, 2) if tier == "quick" else (1, 2, 3)):
        spec = make_loop(shape, j, None)
        model = loop_model(spec)
        for typ in ("CompleteTask", "RunTask", "StartTask", "CompleteStage", "StartStage", "JumpToStage"):
            for occ in range(0, 10 if tier == "quick" else 16):
                for hold_for in ((12, 40) if tier == "quick" else (6, 12, 25, 40, 80)):
                    sd = {"style": "hold-one", "d": [], "R": 2, "hold_one": typ, "occurrence": occ, "hold_for": hold_for}
                    run = Run(spec, make_schedule(sd), max_steps=60 * (sum(model["execs"].values()) + 10) * 2).drain()
                    judge(c, spec, run, sd, ["straggler", f"straggler:{typ}"])
    return c.export()


def _dispatch(fn, a):  # noqa: ANN001
    return fn(*a)


def run(c: Campaign, jobs: int) -> None:
    n = 1600 if c.tier == "quick" else 40000
    shards = max(1, jobs)
    args = [(shard, (c.prop, c.tier, c.seed * 1000 + k, max(1, n // shards))) for k in range(shards)]
    args += [(shard_grid, (c.prop, c.tier, c.seed, shape)) for shape in LOOP_SHAPES]
    args += [(shard_straggler, (c.prop, c.tier, c.seed, shape)) for shape in ("side_target", "side", "cycle3", "two_routers", "nested", "mid_target")]
    run_shards(c, _dispatch, args, jobs)
    c.exhaustive_parts.append("FIFO grid: 11 loop shapes x budget {unset,0,1,2,3} x requested jumps {always,0,1,2,3,4,(11,12 with default budget)}")
    c.rule = ("case = (loop spec, schedule). Non-trivial = >= 2 applied jumps, or >= 1 applied jump on a shape with a fan-in / skip "
              "boundary next to the re-arm set (side, fwd, mid_target, nested, random back edge). Distinct = hash of the case.")
    c.assumptions += [
        "loop workloads have one task per stage and AND joins (the model's domain)",
        "termination is decided as quiescence within a step bound derived from the model's execution count (no clock)",
        "single worker thread; SQLite only",
    ]
    for cls in [f"shape:{s}" for s in LOOP_SHAPES] + ["shape:random-back-edge", "limit-reached", "within-budget", "applied:10"]:
        if c.classes.get(cls, 0) == 0:
            c.harness_error(f"generator starvation: class {cls} never produced")


def regress(c: Campaign, rec: dict[str, Any]) -> None:
    case = rec["case"]
    run_ = Run(case["spec"], make_schedule(case["schedule"]), max_steps=4000).drain()
    judge(c, case["spec"], run_, case["schedule"], ["regression"])


def replay(c: Campaign, rec: dict[str, Any]) -> int:
    regress(c, rec)
    for b, v in c.buckets.items():
        print(f"VIOLATION property={c.prop} replay=given\n  bucket: {b}\n  detail: {v['detail']}")
    if not c.buckets:
        print("replay: no violation")
    return 1 if c.buckets else 0
