"""C19 - what is stored or queued is read back unchanged.

Domain: Hypothesis-built workflows with every persisted field (all enum members, arbitrary unicode without
surrogates, empty / large / nested JSON in context, outputs, trigger, split conditions, multi-instance config,
0-4 tasks per stage, int64 timestamps); stage updates that change a random subset of {status, context, outputs,
times, task fields} through each of the three save paths (store.store_stage, txn.store_stage with and without
an expected phase); an instance of every class in MESSAGE_TYPES with arbitrary field values, pushed by
queue.push and by txn.push_message.
Oracle: field-by-field round-trip equality for the fields the statement lists; an update leaves every
unchanged field of the row and of sibling rows equal to before; a delivered message has the same class and
field values except the four delivery-metadata fields the queue re-assigns; differential: the payload written
by the two push paths is identical.
"""

from __future__ import annotations

import copy
import dataclasses
import json
from typing import Any

from hypothesis import HealthCheck, Phase, given, seed as hseed, settings, strategies as st

from vlib.campaign import Campaign
from vlib.par import run_shards
from vlib.world import World

LEVEL = "exploration"
INT64 = st.integers(-(2**63), 2**63 - 1)
TEXT = st.text(alphabet=st.characters(codec="utf-8", exclude_categories=("Cs",)), max_size=12)
KEY = st.one_of(st.sampled_from(["a", "b", "k", "status", "phase", "x y", "é", ""]), st.text(alphabet=st.characters(codec="utf-8", exclude_categories=("Cs",)), max_size=5))
LEAF = st.one_of(st.none(), st.booleans(), st.integers(-(2**70), 2**70), st.floats(allow_nan=False, allow_infinity=False), TEXT)
JSONV = st.recursive(LEAF, lambda c: st.one_of(st.lists(c, max_size=4), st.dictionaries(KEY, c, max_size=4)), max_leaves=12)
JDICT = st.dictionaries(KEY, JSONV, max_size=4)
BIG = st.builds(lambda n: {"big": "x" * n, "list": list(range(n % 300))}, st.integers(0, 20000))


def _nesting(v: Any, d: int = 0) -> int:
    if isinstance(v, dict):
        return max([_nesting(x, d + 1) for x in v.values()] + [d + 1])
    if isinstance(v, list):
        return max([_nesting(x, d + 1) for x in v] + [d + 1])
    return d


def _nonascii(v: Any) -> bool:
    s = json.dumps(v, ensure_ascii=False, default=str)
    return any(ord(ch) > 127 for ch in s)


@st.composite
def workflow_case(draw) -> dict[str, Any]:
    from stabilize.models.status import WorkflowStatus

    statuses = [s.name for s in WorkflowStatus]
    n = draw(st.integers(0, 4))
    refs = draw(st.lists(st.one_of(st.sampled_from(["a", "b", "c", "d", "é", "x y"]), TEXT), min_size=n, max_size=n, unique=True))
    stages = []
    for i, r in enumerate(refs):
        req = draw(st.lists(st.sampled_from(refs[:i]), unique=True, max_size=2)) if i else []
        join = draw(st.sampled_from(["AND", "OR", "MULTI_MERGE", "DISCRIMINATOR", "N_OF_M"]))
        s = {
            "ref_id": r, "type": draw(TEXT), "name": draw(TEXT), "status": draw(st.sampled_from(statuses)),
            "context": draw(st.one_of(JDICT, BIG)), "outputs": draw(JDICT), "req": sorted(req),
            "start_time": draw(st.one_of(st.none(), INT64)), "end_time": draw(st.one_of(st.none(), INT64)),
            "start_time_expiry": draw(st.one_of(st.none(), INT64)), "scheduled_time": draw(st.one_of(st.none(), INT64)),
            "join_type": join, "join_threshold": draw(st.integers(0, 5)),
            "split_type": draw(st.sampled_from(["AND", "OR"])), "split_conditions": draw(st.dictionaries(KEY, TEXT, max_size=3)),
            "mi": draw(st.one_of(st.none(), st.fixed_dictionaries({
                "count": st.integers(0, 9), "count_from_context": TEXT, "sync_on_complete": st.booleans(), "allow_dynamic": st.booleans(),
                "collection_from_context": TEXT, "join_threshold": st.integers(0, 9), "cancel_remaining": st.booleans()}))),
            "choice": draw(st.one_of(st.none(), TEXT)), "milestone_ref_id": draw(st.one_of(st.none(), TEXT)),
            "milestone_status": draw(st.one_of(st.none(), st.sampled_from(statuses))), "mutex_key": draw(st.one_of(st.none(), TEXT)),
            "cancel_region": draw(st.one_of(st.none(), TEXT)),
            "synthetic": draw(st.sampled_from([None, None, "STAGE_BEFORE", "STAGE_AFTER"])) if i else None,
            "tasks": [],
        }
        for j in range(draw(st.integers(0, 4))):
            s["tasks"].append({
                "name": draw(TEXT), "implementing_class": draw(TEXT), "status": draw(st.sampled_from(statuses)),
                "start_time": draw(st.one_of(st.none(), INT64)), "end_time": draw(st.one_of(st.none(), INT64)),
                "stage_start": draw(st.booleans()), "stage_end": draw(st.booleans()), "loop_start": draw(st.booleans()),
                "loop_end": draw(st.booleans()), "exc": draw(JDICT)})
        stages.append(s)
    wf = {
        "type": draw(st.sampled_from(["PIPELINE", "ORCHESTRATION"])), "application": draw(TEXT), "name": draw(TEXT),
        "status": draw(st.sampled_from(statuses)), "context": draw(JDICT),
        "trigger": {"type": draw(TEXT), "user": draw(TEXT), "parameters": draw(JDICT), "artifacts": draw(st.lists(JDICT, max_size=2)), "payload": draw(JDICT)},
        "start_time": draw(st.one_of(st.none(), INT64)), "end_time": draw(st.one_of(st.none(), INT64)),
        "start_time_expiry": draw(st.one_of(st.none(), INT64)), "is_canceled": draw(st.booleans()),
        "canceled_by": draw(st.one_of(st.none(), TEXT)), "cancellation_reason": draw(st.one_of(st.none(), TEXT)),
        "paused": draw(st.one_of(st.none(), st.fixed_dictionaries({"paused_by": TEXT, "pause_time": st.one_of(st.none(), INT64),
                                                                   "resume_time": st.one_of(st.none(), INT64), "paused_ms": st.integers(0, 2**40)}))),
        "pipeline_config_id": draw(st.one_of(st.none(), TEXT)), "is_limit_concurrent": draw(st.booleans()),
        "max_concurrent_executions": draw(st.integers(0, 100)), "keep_waiting_pipelines": draw(st.booleans()), "origin": draw(st.sampled_from(["api", "deck", "unknown", "é"])),
        "stages": stages,
    }
    return wf


def build(wfd: dict[str, Any]):
    from stabilize.models.multi_instance import MultiInstanceConfig
    from stabilize.models.stage import JoinType, SplitType, StageExecution, SyntheticStageOwner
    from stabilize.models.status import WorkflowStatus
    from stabilize.models.task import TaskExecution
    from stabilize.models.workflow import PausedDetails, Trigger, Workflow, WorkflowType

    stages = []
    for s in wfd["stages"]:
        se = StageExecution(
            ref_id=s["ref_id"], type=s["type"], name=s["name"], status=WorkflowStatus[s["status"]], context=copy.deepcopy(s["context"]),
            outputs=copy.deepcopy(s["outputs"]), requisite_stage_ref_ids=set(s["req"]), start_time=s["start_time"], end_time=s["end_time"],
            start_time_expiry=s["start_time_expiry"], scheduled_time=s["scheduled_time"], join_type=JoinType[s["join_type"]],
            join_threshold=s["join_threshold"], split_type=SplitType[s["split_type"]], split_conditions=dict(s["split_conditions"]),
            mi_config=MultiInstanceConfig(**s["mi"]) if s["mi"] else None, deferred_choice_group=s["choice"], milestone_ref_id=s["milestone_ref_id"],
            milestone_status=s["milestone_status"], mutex_key=s["mutex_key"], cancel_region=s["cancel_region"],
        )
        if s["synthetic"] and stages:
            se.parent_stage_id = stages[0].id
            se.synthetic_stage_owner = SyntheticStageOwner[s["synthetic"]]
        for t in s["tasks"]:
            se.tasks.append(TaskExecution(name=t["name"], implementing_class=t["implementing_class"], status=WorkflowStatus[t["status"]],
                                          start_time=t["start_time"], end_time=t["end_time"], stage_start=t["stage_start"], stage_end=t["stage_end"],
                                          loop_start=t["loop_start"], loop_end=t["loop_end"], task_exception_details=copy.deepcopy(t["exc"])))
        stages.append(se)
    wf = Workflow(type=WorkflowType[wfd["type"]], application=wfd["application"], name=wfd["name"], status=WorkflowStatus[wfd["status"]],
                  stages=stages, context=copy.deepcopy(wfd["context"]), trigger=Trigger(**copy.deepcopy(wfd["trigger"])),
                  start_time=wfd["start_time"], end_time=wfd["end_time"], start_time_expiry=wfd["start_time_expiry"], is_canceled=wfd["is_canceled"],
                  canceled_by=wfd["canceled_by"], cancellation_reason=wfd["cancellation_reason"],
                  paused=PausedDetails(**wfd["paused"]) if wfd["paused"] else None, pipeline_config_id=wfd["pipeline_config_id"],
                  is_limit_concurrent=wfd["is_limit_concurrent"], max_concurrent_executions=wfd["max_concurrent_executions"],
                  keep_waiting_pipelines=wfd["keep_waiting_pipelines"], origin=wfd["origin"])
    return wf


def task_view(t) -> dict[str, Any]:  # noqa: ANN001
    return {"id": t.id, "name": t.name, "implementing_class": t.implementing_class, "status": t.status.name, "start_time": t.start_time,
            "end_time": t.end_time, "stage_start": t.stage_start, "stage_end": t.stage_end, "loop_start": t.loop_start, "loop_end": t.loop_end,
            "exc": t.task_exception_details}


def stage_view(s) -> dict[str, Any]:  # noqa: ANN001
    ctx = {k: v for k, v in s.context.items() if k != "_output_reducers"}
    return {"id": s.id, "ref_id": s.ref_id, "type": s.type, "name": s.name, "status": s.status.name, "context": ctx, "outputs": s.outputs,
            "req": sorted(s.requisite_stage_ref_ids), "parent": s.parent_stage_id, "owner": s.synthetic_stage_owner.name if s.synthetic_stage_owner else None,
            "start_time": s.start_time, "end_time": s.end_time, "start_time_expiry": s.start_time_expiry, "scheduled_time": s.scheduled_time,
            "join_type": s.join_type.name, "join_threshold": s.join_threshold, "split_type": s.split_type.name, "split_conditions": s.split_conditions,
            "mi": s.mi_config.to_dict() if s.mi_config else None, "choice": s.deferred_choice_group, "milestone_ref_id": s.milestone_ref_id,
            "milestone_status": s.milestone_status, "mutex_key": s.mutex_key, "cancel_region": s.cancel_region,
            "reducers": dict(s.output_reducers or {}), "tasks": [task_view(t) for t in s.tasks]}


def wf_view(wf) -> dict[str, Any]:  # noqa: ANN001
    p = wf.paused
    return {"id": wf.id, "type": wf.type.name, "application": wf.application, "name": wf.name, "status": wf.status.name, "context": wf.context,
            "trigger": wf.trigger.to_dict(), "start_time": wf.start_time, "end_time": wf.end_time, "start_time_expiry": wf.start_time_expiry,
            "is_canceled": wf.is_canceled, "canceled_by": wf.canceled_by, "cancellation_reason": wf.cancellation_reason,
            "paused": {"paused_by": p.paused_by, "pause_time": p.pause_time, "resume_time": p.resume_time, "paused_ms": p.paused_ms} if p else None,
            "pipeline_config_id": wf.pipeline_config_id, "is_limit_concurrent": wf.is_limit_concurrent,
            "max_concurrent_executions": wf.max_concurrent_executions, "keep_waiting_pipelines": wf.keep_waiting_pipelines, "origin": wf.origin,
            "stages": {s.id: stage_view(s) for s in wf.stages}}


def first_diff(a: Any, b: Any, path: str = "") -> str | None:
    if type(a) is not type(b) and not (isinstance(a, (int, float)) and isinstance(b, (int, float)) and not isinstance(a, bool) and not isinstance(b, bool)):
        return f"{path}: {a!r} ({type(a).__name__}) != {b!r} ({type(b).__name__})"
    if isinstance(a, dict):
        for k in sorted(set(a) | set(b), key=str):
            if k not in a or k not in b:
                return f"{path}.{k}: present on one side only"
            d = first_diff(a[k], b[k], f"{path}.{k}")
            if d:
                return d
        return None
    if isinstance(a, list):
        if len(a) != len(b):
            return f"{path}: length {len(a)} != {len(b)}"
        for i, (x, y) in enumerate(zip(a, b)):
            d = first_diff(x, y, f"{path}[{i}]")
            if d:
                return d
        return None
    return None if a == b else f"{path}: {a!r} != {b!r}"


_WORLD: World | None = None


def world() -> World:
    global _WORLD
    if _WORLD is None:
        _WORLD = World()
    return _WORLD


def field_class(path: str) -> str:
    parts = [p for p in path.replace("[", ".").split(".") if p]
    for p in parts:
        if p in ("context", "outputs", "trigger", "tasks", "split_conditions", "mi", "req", "status", "paused", "exc"):
            return p
    return parts[-1] if parts else "?"


def shard_workflows(prop: str, tier: str, seed: int, n: int) -> dict[str, Any]:
    c = Campaign(prop, tier, seed, LEVEL)
    w = world()

    @hseed(seed)
    @settings(max_examples=n, database=None, deadline=None, derandomize=False, suppress_health_check=list(HealthCheck),
              phases=[Phase.generate], report_multiple_bugs=False)
    @given(workflow_case(), st.data())
    def t(wfd, data):
        wf = build(wfd)
        before = wf_view(wf)
        w.store.store(wf)
        back = w.store.retrieve(wf.id)
        after = wf_view(back)
        d = first_diff(before, after, "workflow")
        case = {"kind": "workflow", "workflow": wfd}
        if d:
            c.violation(f"roundtrip:{field_class(d.split(':')[0])}", case, d)
        # retrieve_stage() must agree with retrieve()
        for s in back.stages:
            one = stage_view(w.store.retrieve_stage(s.id))
            d2 = first_diff(after["stages"][s.id], one, f"stage[{s.ref_id}]")
            if d2:
                c.violation(f"retrieve_stage-differs:{field_class(d2.split(':')[0])}", case, d2)
                break
        # ---- update of one stage through one of the save paths ----
        if back.stages:
            from stabilize.models.status import WorkflowStatus

            target = data.draw(st.sampled_from(sorted(back.stages, key=lambda s: s.id)))
            stg = w.store.retrieve_stage(target.id)
            expected = copy.deepcopy(after)
            ev = expected["stages"][stg.id]
            changes = data.draw(st.lists(st.sampled_from(["status", "context", "outputs", "start_time", "end_time", "task", "task-flags"]), unique=True, max_size=4))
            for ch in changes:
                if ch == "status":
                    stg.status = WorkflowStatus[data.draw(st.sampled_from([x.name for x in WorkflowStatus]))]
                    ev["status"] = stg.status.name
                elif ch == "context":
                    k, v = data.draw(KEY), data.draw(JSONV)
                    if k != "_output_reducers":
                        stg.context[k] = v
                        ev["context"][k] = copy.deepcopy(v)
                elif ch == "outputs":
                    stg.outputs = data.draw(JDICT)
                    ev["outputs"] = copy.deepcopy(stg.outputs)
                elif ch == "start_time":
                    stg.start_time = data.draw(st.one_of(st.none(), INT64))
                    ev["start_time"] = stg.start_time
                elif ch == "end_time":
                    stg.end_time = data.draw(st.one_of(st.none(), INT64))
                    ev["end_time"] = stg.end_time
                elif ch == "task" and stg.tasks:
                    i = data.draw(st.integers(0, len(stg.tasks) - 1))
                    stg.tasks[i].status = WorkflowStatus[data.draw(st.sampled_from([x.name for x in WorkflowStatus]))]
                    stg.tasks[i].end_time = data.draw(st.one_of(st.none(), INT64))
                    stg.tasks[i].task_exception_details = data.draw(JDICT)
                    ev["tasks"][i].update(status=stg.tasks[i].status.name, end_time=stg.tasks[i].end_time, exc=copy.deepcopy(stg.tasks[i].task_exception_details))
                elif ch == "task-flags" and stg.tasks:
                    # what the StartStage planner does to tasks that were stored with the workflow: it marks the first / last
                    # task of the stage (and loop boundaries) and stamps the start time, then saves the stage
                    i = data.draw(st.integers(0, len(stg.tasks) - 1))
                    tk = stg.tasks[i]
                    tk.stage_start, tk.stage_end = data.draw(st.booleans()), data.draw(st.booleans())
                    tk.loop_start, tk.loop_end = data.draw(st.booleans()), data.draw(st.booleans())
                    tk.start_time = data.draw(st.one_of(st.none(), INT64))
                    ev["tasks"][i].update(stage_start=tk.stage_start, stage_end=tk.stage_end, loop_start=tk.loop_start, loop_end=tk.loop_end, start_time=tk.start_time)
            path = data.draw(st.sampled_from(["store", "txn", "txn-phase"]))
            old_status = after["stages"][stg.id]["status"]
            if path == "store":
                w.store.store_stage(stg)
            elif path == "txn":
                with w.store.transaction(w.queue) as txn:
                    txn.store_stage(stg)
            else:
                with w.store.transaction(w.queue) as txn:
                    txn.store_stage(stg, expected_phase=old_status)
            got = wf_view(w.store.retrieve(wf.id))
            d3 = first_diff(expected, got, "workflow")
            if d3:
                c.violation(f"update:{path}:{field_class(d3.split(':')[0])}", {"kind": "update", "workflow": wfd, "changes": changes, "path": path}, d3)
            c.count(f"update-path:{path}")
            for ch in changes:
                c.count(f"update-field:{ch}")
        nontrivial = _nesting([wfd["context"], [s["context"] for s in wfd["stages"]]]) >= 3 or _nonascii(wfd) \
            or any(s["status"] != "NOT_STARTED" or s["join_type"] != "AND" for s in wfd["stages"])
        c.case(("wf", wfd), nontrivial, ["workflow", f"stages:{len(wfd['stages'])}"],
               sample={"workflow": {k: v for k, v in wfd.items() if k != "stages"}, "n_stages": len(wfd["stages"])} if nontrivial and len(json.dumps(wfd, default=str)) < 1500 else None)
        w.store.delete(wf.id)

    t()
    return c.export()


@st.composite
def message_case(draw) -> dict[str, Any]:
    from stabilize.queue.messages import MESSAGE_TYPES

    name = draw(st.sampled_from(sorted(MESSAGE_TYPES)))
    cls = MESSAGE_TYPES[name]
    vals: dict[str, Any] = {}
    for f in dataclasses.fields(cls):
        if f.name in ("message_id", "created_at", "attempts", "max_attempts"):
            continue
        tp = str(f.type)
        if f.name == "status":
            vals[f.name] = draw(st.sampled_from(["SUCCEEDED", "TERMINAL", "REDIRECT", "SKIPPED", "CANCELED", "FAILED_CONTINUE", "STOPPED", "RUNNING"]))
        elif f.name == "original_status":
            vals[f.name] = draw(st.one_of(st.none(), st.sampled_from(["TERMINAL", "CANCELED", "SUCCEEDED"])))
        elif f.name == "phase":
            vals[f.name] = draw(st.sampled_from(["STAGE_BEFORE", "STAGE_AFTER"]))
        elif "dict" in tp:
            vals[f.name] = draw(JDICT)
        elif "bool" in tp:
            vals[f.name] = draw(st.booleans())
        elif "int" in tp:
            vals[f.name] = draw(st.integers(0, 2**31))
        elif "None" in tp:
            vals[f.name] = draw(st.one_of(st.none(), TEXT))
        else:
            vals[f.name] = draw(TEXT)
    return {"type": name, "fields": vals}


def make_message(mc: dict[str, Any]):
    from stabilize.models.stage import SyntheticStageOwner
    from stabilize.models.status import WorkflowStatus
    from stabilize.queue.messages import MESSAGE_TYPES

    kw = copy.deepcopy(mc["fields"])
    if "status" in kw:
        kw["status"] = WorkflowStatus[kw["status"]]
    if kw.get("original_status"):
        kw["original_status"] = WorkflowStatus[kw["original_status"]]
    if "phase" in kw:
        kw["phase"] = SyntheticStageOwner[kw["phase"]]
    return MESSAGE_TYPES[mc["type"]](**kw)


def msg_view(m) -> dict[str, Any]:  # noqa: ANN001
    out = {}
    for f in dataclasses.fields(m):
        if f.name in ("message_id", "created_at", "attempts", "max_attempts"):
            continue
        v = getattr(m, f.name)
        out[f.name] = v.name if hasattr(v, "name") and hasattr(v, "value") else v
    return out


def shard_messages(prop: str, tier: str, seed: int, n: int) -> dict[str, Any]:
    c = Campaign(prop, tier, seed, LEVEL)
    w = world()

    @hseed(seed)
    @settings(max_examples=n, database=None, deadline=None, derandomize=False, suppress_health_check=list(HealthCheck),
              phases=[Phase.generate], report_multiple_bugs=False)
    @given(message_case())
    def t(mc):
        payloads = {}
        case = {"kind": "message", "message": mc}
        for path in ("push", "txn"):
            w._harness_sql("DELETE FROM queue_messages")
            m = make_message(mc)
            want = msg_view(m)
            if path == "push":
                w.queue.push(m)
            else:
                with w.store.transaction(w.queue) as txn:
                    txn.push_message(m)
            row = w.rows("SELECT message_type, payload FROM queue_messages")
            if len(row) != 1:
                c.violation(f"message:{path}:rows", case, f"{len(row)} rows after one push")
                continue
            pl = json.loads(row[0][1])
            for k in ("message_id", "created_at", "attempts", "max_attempts"):
                pl.pop(k, None)
            payloads[path] = pl
            got = w.queue.poll_one()
            if got is None:
                c.violation(f"message:{path}:not-delivered", case, "poll_one returned nothing for a freshly pushed message")
                continue
            if type(got).__name__ != mc["type"]:
                c.violation(f"message:{path}:class", case, f"delivered as {type(got).__name__}")
            d = first_diff(want, msg_view(got), f"{mc['type']}")
            if d:
                c.violation(f"message:{path}:{field_class(d.split(':')[0])}", case, d)
            w.queue.ack(got)
        if len(payloads) == 2:
            d = first_diff(payloads["push"], payloads["txn"], "payload")
            if d:
                c.violation("message:push-paths-differ", case, d)
        nontrivial = _nesting(mc["fields"]) >= 2 or _nonascii(mc["fields"]) or any(k in mc["fields"] for k in ("status", "phase"))
        c.case(("msg", mc), nontrivial, ["message", f"msg:{mc['type']}"], sample=mc if nontrivial and len(json.dumps(mc, default=str)) < 600 else None)

    t()
    return c.export()


def _dispatch(fn, a):  # noqa: ANN001
    return fn(*a)


def run(c: Campaign, jobs: int) -> None:
    quick = c.tier == "quick"
    n_wf = 2400 if quick else 100000
    n_msg = 3200 if quick else 100000
    shards = max(1, jobs)
    args = [(shard_workflows, (c.prop, c.tier, c.seed * 1000 + k, max(1, n_wf // shards))) for k in range(shards)]
    args += [(shard_messages, (c.prop, c.tier, c.seed * 1000 + 500 + k, max(1, n_msg // shards))) for k in range(shards)]
    run_shards(c, _dispatch, args, jobs)
    c.rule = ("case = one generated workflow (stored, read back, then one stage updated through one save path and read back again) or one generated "
              "message (pushed through both paths and delivered). Non-trivial = nesting depth >= 3 or non-ASCII text or a non-default enum member "
              "(workflow) / nesting >= 2, non-ASCII or an enum field (message). Distinct = hash of the generated value.")
    c.assumptions += [
        "JSON-representable = None/bool/int/finite float/str without surrogates/list/dict with str keys; timestamps are int64",
        "fields this tree never persists (cleanup_on_failure, finalizer_names, config_version) are outside the statement's list and not compared; output_reducers round-trips through the context key it is mirrored into",
        "stage order inside a retrieved workflow is not asserted (stages are compared by id); task order is",
        "delivery metadata (message_id, created_at, attempts, max_attempts) is re-assigned by the queue and not compared",
    ]
    from stabilize.queue.messages import MESSAGE_TYPES

    for name in MESSAGE_TYPES:
        if c.classes.get(f"msg:{name}", 0) == 0:
            c.harness_error(f"generator starvation: message class {name} never produced")
    for cls in ("update-path:store", "update-path:txn", "update-path:txn-phase", "update-field:outputs", "update-field:task"):
        if c.classes.get(cls, 0) == 0:
            c.harness_error(f"generator starvation: class {cls} never produced")


def replay(c: Campaign, rec: dict[str, Any]) -> int:
    print("replay: re-run the campaign with the same VERIF_SEED (cases are pure functions of the seed); the case is in the replay file")
    return 2
