"""C12 - replaying the event log reproduces the stored state.

Domain: spec (all outcome classes: success, terminal failure, continue-on-failure, skip, injected cancel, loop
iterations, suspend + signal) x crash-free delivery schedule, event store in the workflow database; then
EVERY prefix length of the workflow's event log and EVERY snapshot position (exhaustive per run).
Oracle: (1) rebuild_workflow_state() reports the store's status for the workflow and for every stage / task
whose last durable status change was written by the regular start / complete / fail / skip / cancel steps
(entities force-marked by a jump or an operator restart, and never-started tasks swept by CancelStage, are outside the log;
entities absent from the replay count as NOT_STARTED); (2) rebuild(as_of = s) equals an independent fold of
exactly the events with sequence <= s (reference fold written from the documented event semantics);
(3) with a snapshot saved at position p (state = rebuild as of p), rebuild() and rebuild(as_of = s >= p)
through a SnapshotStore equal the snapshot-free rebuild in status, application, name, context, stages, tasks.
"""

from __future__ import annotations

import json
from typing import Any

from hypothesis import HealthCheck, Phase, given, seed as hseed, settings, strategies as st

from vlib import oracles
from vlib.campaign import Campaign
from vlib.engine_d import Run, inj_cancel, inj_signal
from vlib.par import run_shards
from vlib.sched import make_schedule, schedule_desc
from vlib.spec import core_corpus, dag_spec, features, loop_spec, syn_confluent_spec

LEVEL = "exploration"

STAGE_WRITERS = {"StartStage", "CompleteStage", "SkipStage", "CancelStage"}
TASK_WRITERS = {"StartTask", "CompleteTask"}


def reference_fold(rows: list[tuple[Any, ...]]) -> dict[str, Any]:
    """Independent fold of (event_type, entity_type, entity_id, data) rows into statuses."""
    wf: str | None = None
    stages: dict[str, str] = {}
    tasks_: dict[str, str] = {}
    task_stage: dict[str, str] = {}
    for et, ent, eid, data in rows:
        d = json.loads(data) if data else {}
        if ent == "workflow":
            if et == "workflow.started":
                wf = "RUNNING"
            elif et == "workflow.completed":
                wf = d.get("status", "SUCCEEDED")
            elif et == "workflow.failed":
                wf = d.get("status", "TERMINAL")
            elif et == "workflow.canceled":
                wf = "CANCELED"
            elif et == "workflow.paused":
                wf = "PAUSED"
            elif et == "workflow.resumed":
                wf = "RUNNING"
        elif ent == "stage":
            if et == "stage.started":
                stages[eid] = "RUNNING"
            elif et == "stage.completed":
                stages[eid] = d.get("status", "SUCCEEDED")
            elif et == "stage.failed":
                stages[eid] = d.get("status", "TERMINAL")
            elif et == "stage.skipped":
                stages[eid] = "SKIPPED"
            elif et == "stage.canceled":
                stages[eid] = "CANCELED"
                for tid, sid in task_stage.items():  # CancelStage cancels the stage's running tasks with this one event
                    if sid == eid and tasks_.get(tid) == "RUNNING":
                        tasks_[tid] = "CANCELED"
            else:
                stages.setdefault(eid, None)  # type: ignore[arg-type]
        elif ent == "task":
            if d.get("stage_id") and eid not in task_stage:
                task_stage[eid] = d["stage_id"]
            if et == "task.started":
                tasks_[eid] = "RUNNING"
            elif et == "task.completed":
                tasks_[eid] = d.get("status", "SUCCEEDED")
            elif et == "task.failed":
                tasks_[eid] = d.get("status", "TERMINAL")
            else:
                tasks_.setdefault(eid, None)  # type: ignore[arg-type]
    return {"workflow": wf, "stages": stages, "tasks": tasks_}


def statuses_of(state: dict[str, Any]) -> dict[str, Any]:
    return {"workflow": state.get("status"),
            "stages": {k: v.get("status") for k, v in state.get("stages", {}).items()},
            "tasks": {k: v.get("status") for k, v in state.get("tasks", {}).items()}}


def comparable_part(state: dict[str, Any]) -> dict[str, Any]:
    """Everything a rebuilt state reports: statuses and data, the workflow's own start / end timestamps included (they are part
    of the snapshotted state dict)."""
    return {k: state.get(k) for k in ("status", "application", "name", "context", "stages", "tasks", "start_time", "end_time")}


def judge(c: Campaign, spec: dict[str, Any], run: Run, desc: Any, extra=()) -> None:
    from stabilize.events import EventReplayer, Snapshot, SnapshotStore
    from stabilize.events.base import EntityType

    w = run.w
    es = w.event_store
    case = {"spec": spec, "schedule": desc}
    wf_id = run.wf_id
    replayer = EventReplayer(es)
    full = replayer.rebuild_workflow_state(wf_id)
    got = statuses_of(full)
    # ---- (1) replay vs store ----
    audit = w.audit()
    last_writer: dict[tuple[str, str], tuple[str, str]] = {}
    last_old: dict[tuple[str, str], tuple[str, str]] = {}  # (status before the last change, writer of the change before that)
    for _q, _step, writer, kind, ident, old, new in audit:
        if old is not None and old != new:
            prev = last_writer.get((kind, ident))
            last_old[(kind, ident)] = (old, prev[0] if prev else "")
            last_writer[(kind, ident)] = (writer, new)
    store_wf = w.scalar("SELECT status FROM pipeline_executions WHERE id = ?", (wf_id,))
    lw = last_writer.get(("workflow", wf_id))
    if lw and lw[0] in ("StartWorkflow", "CompleteWorkflow") and got["workflow"] != store_wf:
        c.violation("replay-vs-store:workflow", case, f"replayed workflow status {got['workflow']}, store has {store_wf} (last written by {lw[0]})")
    compared = 0
    for sid, status in w.rows("SELECT id, status FROM stage_executions"):
        lw = last_writer.get(("stage", sid))
        if not lw or lw[0] not in STAGE_WRITERS or (lw[0] == "StartStage" and lw[1] != "RUNNING"):
            continue
        compared += 1
        rep = got["stages"].get(sid) or "NOT_STARTED"
        if rep != status:
            c.violation(f"replay-vs-store:stage:{lw[0]}", case, f"stage {sid}: replay {rep}, store {status} (last written by {lw[0]})")
    for tid, status in w.rows("SELECT id, status FROM task_executions"):
        lw = last_writer.get(("task", tid))
        if lw and lw[0] == "CancelStage" and last_old.get(("task", tid)) == ("RUNNING", "StartTask"):
            # a task that went through the regular start step (the log knows it) and was then canceled with its stage
            compared += 1
            if got["tasks"].get(tid) != status:
                c.violation("replay-vs-store:task:CancelStage", case, f"task {tid}: replay {got['tasks'].get(tid)}, store {status} (started, then canceled with its stage by CancelStage)")
            continue
        if not lw or lw[0] not in TASK_WRITERS or lw[1] == "SKIPPED":
            continue
        compared += 1
        rep = got["tasks"].get(tid) or "NOT_STARTED"
        if rep != status:
            c.violation(f"replay-vs-store:task:{lw[0]}", case, f"task {tid}: replay {rep}, store {status} (last written by {lw[0]})")
    # ---- (2) every prefix ----
    rows = w.rows("SELECT sequence, event_type, entity_type, entity_id, data FROM events WHERE workflow_id = ? ORDER BY sequence", (wf_id,))
    seqs = [r[0] for r in rows]
    cuts = [0] + seqs + ([seqs[-1] + 5] if seqs else [])
    prefix_bad = False
    for s in cuts:
        ref = reference_fold([tuple(r[1:]) for r in rows if r[0] <= s])
        st_ = statuses_of(replayer.rebuild_workflow_state(wf_id, as_of_sequence=s))
        st_n = {"workflow": st_["workflow"], "stages": st_["stages"], "tasks": st_["tasks"]}
        if st_n != ref and not prefix_bad:
            prefix_bad = True
            diff = [k for k in ("workflow", "stages", "tasks") if st_n[k] != ref[k]]
            c.violation("as-of-prefix", case, f"rebuild(as_of={s}) differs from the fold of events <= {s} in {diff}: {json.dumps(st_n)[:200]} vs {json.dumps(ref)[:200]}")
    # ---- (3) every snapshot position ----
    snap_store = SnapshotStore(es)
    with_snap = EventReplayer(es, snap_store)
    snap_bad = False
    base_full = comparable_part(full)
    for i, p in enumerate(seqs):
        if snap_bad:
            break
        w._harness_sql("DELETE FROM snapshots")
        state_p = replayer.rebuild_workflow_state(wf_id, as_of_sequence=p)
        snap_store.save_snapshot(Snapshot(entity_type=EntityType.WORKFLOW, entity_id=wf_id, workflow_id=wf_id, version=i + 1,
                                          sequence=p, state=state_p))
        got_full = comparable_part(with_snap.rebuild_workflow_state(wf_id))
        if got_full != base_full:
            snap_bad = True
            diff = [k for k in base_full if base_full[k] != got_full[k]]
            c.violation("snapshot-plus-tail", case, f"snapshot at sequence {p} + later events differs from the full replay in {diff}")
            break
        # as-of queries at and after the snapshot position (the one right after it and the last)
        for s in sorted({p, seqs[min(i + 1, len(seqs) - 1)], seqs[-1]}):
            a = comparable_part(with_snap.rebuild_workflow_state(wf_id, as_of_sequence=s))
            b = comparable_part(replayer.rebuild_workflow_state(wf_id, as_of_sequence=s))
            if a != b:
                snap_bad = True
                diff = [k for k in a if a[k] != b[k]]
                c.violation("snapshot-as-of", case, f"snapshot at {p}, as_of={s}: differs from the snapshot-free rebuild in {diff}")
                break
    w._harness_sql("DELETE FROM snapshots")
    kinds = {r[1] for r in rows}
    iterations = sum(1 for r in rows if r[1] == "stage.started")
    nontrivial = bool(kinds & {"stage.failed", "task.failed", "stage.skipped", "stage.canceled", "workflow.canceled", "workflow.failed"}) \
        or "jump" in features(spec)
    c.case(("c12", spec, desc), nontrivial, [f"feat:{f}" for f in features(spec)] + list(extra) + [f"ev:{k}" for k in sorted(kinds)],
           sample={"spec": spec["name"], "schedule": desc, "events": len(rows), "entities_compared": compared, "prefixes": len(cuts),
                   "snapshot_positions": len(seqs), "replayed_workflow": got["workflow"]} if nontrivial else None)
    c.count("prefixes-checked", len(cuts))
    c.count("snapshot-positions-checked", len(seqs))


def shard(prop: str, tier: str, seed: int, n: int) -> dict[str, Any]:
    c = Campaign(prop, tier, seed, LEVEL)
    spec_st = st.one_of(st.sampled_from(list(core_corpus().values())), dag_spec(max_stages=5, allow=("multi", "fail", "cof", "poll", "skip", "transient", "disabled")),
                        loop_spec(max_j=2), syn_confluent_spec())

    @hseed(seed)
    @settings(max_examples=n, database=None, deadline=None, derandomize=False, suppress_health_check=list(HealthCheck),
              phases=[Phase.generate], report_multiple_bugs=False)
    @given(spec_st, st.one_of(st.just({"style": "fifo", "d": [], "R": 2}), schedule_desc()),
           st.sampled_from(["none", "none", "cancel", "signal"]), st.integers(0, 30))
    def t(spec, sd, inj, at):
        run = Run(spec, make_schedule(sd), events=True)
        desc = dict(sd)
        if inj == "cancel":
            run.injections.setdefault(at, []).append(inj_cancel())
            desc["cancel_at"] = at
        elif inj == "signal" or any(t.get("b") == "suspend" for s in spec["stages"] for t in s["tasks"]):
            gates = [s["ref"] for s in spec["stages"] if any(t.get("b") == "suspend" for t in s["tasks"])]
            if gates:
                run.injections.setdefault(at, []).append(inj_signal(gates[0], "go", {"x": 1}, persistent=True))
                desc["signal_at"] = at
        run.drain()
        judge(c, spec, run, desc, [f"style:{sd['style']}", f"inj:{inj}"])

    t()
    return c.export()


CANCEL_SWEEP = ("chain", "diamond", "multitask", "before", "after", "gate", "loop2", "cof", "syn-skipped-parent")


def shard_cancel_sweep(prop: str, tier: str, seed: int, name: str) -> dict[str, Any]:
    """The cancel at every delivery position of the FIFO run, the fan-out then delivered in order and with one message type
    held back (so the cancel reaches a task through its own RunTask / CompleteTask before - or after - the CancelStage)."""
    c = Campaign(prop, tier, seed, LEVEL)
    spec = core_corpus().get(name)
    if spec is None:
        from checks import c17

        spec = c17.sweep_specs()[name]
    steps = Run(spec, make_schedule({"style": "fifo", "d": [], "R": 2}), events=True).drain().steps
    sds = [{"style": "fifo", "d": [], "R": 2}]
    for hold, hf in (("CancelStage", 3), ("CancelStage", 12), ("RunTask", 4), ("CompleteStage", 4), ("CompleteTask", 4), ("StartTask", 4)):
        sds.append({"style": "hold", "d": [], "R": 2, "hold": hold, "hold_for": hf})
    for at in range(steps + 2):
        for sd in sds:
            run = Run(spec, make_schedule(sd), events=True)
            run.injections.setdefault(at, []).append(inj_cancel())
            run.drain()
            judge(c, spec, run, {**sd, "cancel_at": at}, ["cancel-sweep", f"style:{sd['style']}", "inj:cancel"])
    return c.export()


def _dispatch(fn, a):  # noqa: ANN001
    return fn(*a)


def run(c: Campaign, jobs: int) -> None:
    n = 640 if c.tier == "quick" else 20000
    shards = max(1, jobs)
    args = [(shard, (c.prop, c.tier, c.seed * 1000 + k, max(1, n // shards))) for k in range(shards)]
    args += [(shard_cancel_sweep, (c.prop, c.tier, c.seed, name)) for name in CANCEL_SWEEP]
    run_shards(c, _dispatch, args, jobs)
    c.exhaustive_parts.append("cancel injected before every delivery position of the FIFO run of 9 workflows, fan-out delivered in order and with one message type held back")
    c.exhaustive_parts.append("per run: every prefix length of the workflow's event log and every snapshot position")
    c.rule = ("case = (spec, crash-free schedule, optional injected cancel / signal); per case every event-log prefix and every snapshot position "
              "is checked. Non-trivial = the log contains a failure / skip / cancel event or the spec loops. Distinct = hash of the case.")
    c.assumptions += [
        "the as-of oracle is an independent re-implementation of the documented fold (started -> RUNNING, completed/failed -> carried status, skipped, canceled)",
        "comparable entities = last durable status change written by StartStage(->RUNNING)/CompleteStage/SkipStage/CancelStage (stages), StartTask/CompleteTask non-SKIPPED (tasks), StartWorkflow/CompleteWorkflow (workflow)",
        "snapshot + tail is compared with the full replay on statuses, context, outputs and the workflow's start/end timestamps",
        "event store in the same SQLite database; crash-free runs only",
    ]
    for cls in ("ev:stage.failed", "ev:stage.skipped", "ev:stage.canceled", "ev:workflow.canceled", "feat:jump", "inj:signal", "cancel-sweep"):
        if c.classes.get(cls, 0) == 0:
            c.harness_error(f"generator starvation: class {cls} never produced")


def regress(c: Campaign, rec: dict[str, Any]) -> None:
    case = rec["case"]
    sd = case["schedule"]
    run_ = Run(case["spec"], make_schedule(sd), events=True)
    if "cancel_at" in sd:
        run_.injections.setdefault(sd["cancel_at"], []).append(inj_cancel())
    run_.drain()
    judge(c, case["spec"], run_, sd, ["regression"])


def replay(c: Campaign, rec: dict[str, Any]) -> int:
    regress(c, rec)
    for b, v in c.buckets.items():
        print(f"VIOLATION property={c.prop} replay=given\n  bucket: {b}\n  detail: {v['detail']}")
    if not c.buckets:
        print("replay: no violation")
    return 1 if c.buckets else 0
