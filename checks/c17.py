"""C17 - after a cancel is accepted no further task starts and the workflow ends.

Domain: spec (core corpus, generated DAGs with continue-on-failure / polling / transient / suspend / after
children / jump loops) x a cancel request injected before every delivery step (exhaustive under FIFO) and at
random steps of generated schedules in which the cancel itself, its CancelStage messages or anything else
may be overtaken or held back.
Oracle: let t be the delivery step at which the cancel flag became durable on a workflow that was not yet
final.  (1) no task execution happens at a step > t; (2) at quiescence the workflow status is final;
(3) it is CANCELED unless at t every top-level stage was in effect finished (all its tasks had executed to a
result) - then the status those results imply is accepted too - or a TERMINAL result had already been
recorded (then TERMINAL is accepted); (4) no top-level stage is left NOT_STARTED / RUNNING / SUSPENDED /
PAUSED, and a stage with outstanding work at t ends CANCELED (SKIPPED only if it was skip-destined).
"""

from __future__ import annotations

from typing import Any

from hypothesis import HealthCheck, Phase, given, seed as hseed, settings, strategies as st

from vlib import oracles, tasks
from vlib.campaign import Campaign
from vlib.engine_d import Run, inj_cancel
from vlib.par import run_shards
from vlib.sched import make_schedule, schedule_desc
from vlib.spec import by_ref, core_corpus, dag_spec, features, loop_spec, make_loop, ok, stage

LEVEL = "exploration"


def _finished_result(t: dict[str, Any], idx: int, seen: dict[str, Any]) -> bool:
    """Did this execution of the task produce a final result (as opposed to 'poll again' / retry / suspend)?"""
    b = t.get("b", "ok")
    if b in ("ok", "fail", "jump", "fail_continue"):
        return True
    if b == "poll":
        return seen.get(f"_poll{idx}", 0) >= t.get("k", 1)
    if b == "transient":
        k = t.get("k", 1)
        return k >= 0 and seen.get(f"_prog{idx}", 0) >= k
    if b == "suspend":
        return "_signal_name" in seen
    return True


def judge(c: Campaign, spec: dict[str, Any], run: Run, desc: Any, extra=()) -> None:
    m = by_ref(spec)
    t_accept = run.__dict__.get("cancel_accepted_at")
    wf = run.workflow()
    ws = wf.status.name
    case = {"spec": spec, "schedule": desc}
    led = tasks.ledger_snapshot()
    audit = run.w.audit()
    classes = [f"feat:{f}" for f in features(spec)] + list(extra)
    if t_accept is None:
        c.case(("c17", spec, desc), False, classes + ["cancel-not-accepted(workflow already final or cancel never handled)"])
        return
    id2ref = {f"W1-{r}": r for r in m}
    status_at = {r: "NOT_STARTED" for r in m}
    terminal_recorded = False
    for _q, step, _w, kind, ident, _old, new in audit:
        if step > t_accept:
            continue
        if kind == "stage" and ident in id2ref:
            status_at[id2ref[ident]] = new
        if kind in ("stage", "task") and new == "TERMINAL":
            terminal_recorded = True
    # (1) no execution after the accept step
    late = [e for e in led if e["step"] > t_accept]
    if late:
        e = late[0]
        c.violation("task-executed-after-cancel", case, f"{e['stage']}.t{e['task']} executed at step {e['step']}, cancel accepted at step {t_accept}")
    # outstanding work per top-level stage at t
    outstanding: dict[str, bool] = {}
    for r, s in m.items():
        if status_at[r] in oracles.COMPLETE or s.get("enabled") is False:
            outstanding[r] = False  # finished, or skip-destined: no task of it would ever execute
            continue
        fin = []
        for i, t in enumerate(s["tasks"]):
            ex = [e for e in led if e["stage"] == r and e["task"] == i and e["step"] <= t_accept]
            # executions of earlier loop iterations do not count for a re-armed stage: take the last one only if the stage is active
            fin.append(bool(ex) and _finished_result(t, i, ex[-1]["seen"]) and status_at[r] not in ("NOT_STARTED",))
            if any(t.get("b") == "fail" and e for e in ex[-1:]):
                terminal_recorded = terminal_recorded or (not s.get("cof"))
        # a failing task ends the stage: later tasks never run
        done = False
        for i, t in enumerate(s["tasks"]):
            if not fin[i]:
                break
            if t.get("b") in ("fail",) or (t.get("b") == "jump"):
                done = True
                break
        else:
            done = all(fin)
        outstanding[r] = not done
    # a NOT_STARTED stage behind a stage that ended in a halt status (a STOPPED failure lets the other branches go on, but what
    # hangs off the stopped stage never runs) is not outstanding work: no task of it would ever execute
    def failed_by_then(r: str) -> bool:
        s_ = m[r]
        if s_.get("cof"):
            return False
        return any(t.get("b") == "fail" and any(e["stage"] == r and e["task"] == i and e["step"] <= t_accept for e in led) for i, t in enumerate(s_["tasks"]))

    halted_eff = {r for r in m if status_at[r] in oracles.HALT or (status_at[r] != "NOT_STARTED" and failed_by_then(r))}
    blocked: set[str] = set()
    grew = True
    while grew:
        grew = False
        for r, s in m.items():
            if r not in blocked and status_at[r] == "NOT_STARTED" and any(u in halted_eff or u in blocked for u in s["req"]):
                blocked.add(r)
                grew = True
    stopped_then = any(m[r].get("stop") for r in halted_eff)
    for r in blocked:
        if stopped_then:
            outstanding[r] = False
    in_effect_finished = not any(outstanding.values())
    if run.step_bound_hit:
        c.violation("no-quiescence-after-cancel", case, f"messages still deliverable after {run.steps} deliveries")
    elif ws not in oracles.COMPLETE:
        c.violation(f"not-final-after-cancel|{oracles.diagnose_stuck(run)}", case,
                    f"workflow {ws} at quiescence; stages {{{', '.join(f'{s.name}: {s.status.name}' for s in wf.stages)}}}")
    else:
        allowed = {"CANCELED"}
        if terminal_recorded:
            allowed.add("TERMINAL")
        if in_effect_finished:
            allowed |= {"SUCCEEDED", "TERMINAL"}
        if ws not in allowed:
            c.violation("wrong-final-status", case, f"workflow {ws}, allowed {sorted(allowed)} (outstanding work at accept: "
                        f"{sorted(r for r, o in outstanding.items() if o)})")
        for s in wf.stages:
            if s.parent_stage_id is not None and s.status.name in ("NOT_STARTED", "RUNNING", "SUSPENDED", "PAUSED") and ws == "CANCELED":
                # synthetic children are stages too: "every stage that had not already finished ends canceled"
                c.violation(f"child-left-{s.status.name}", case, f"synthetic stage {s.name} is {s.status.name} in a {ws} workflow")
            if s.parent_stage_id is not None or s.name not in m:
                continue
            st_ = s.status.name
            if st_ in ("NOT_STARTED", "RUNNING", "SUSPENDED", "PAUSED"):
                c.violation(f"stage-left-{st_}", case, f"stage {s.name} is {st_} in a {ws} workflow (was {status_at[s.name]} when the cancel was accepted)")
            elif outstanding[s.name] and st_ != "CANCELED":
                skip_destined = m[s.name].get("enabled") is False or status_at[s.name] == "NOT_STARTED" and st_ == "SKIPPED"
                if st_ == "SKIPPED" and skip_destined:
                    continue
                if st_ == "TERMINAL" and any(e["stage"] == s.name and m[s.name]["tasks"][e["task"]].get("b") in ("fail", "jump") for e in led):
                    continue  # its failing / over-budget task had already produced the TERMINAL result before t
                c.violation(f"unfinished-stage-ends-{st_}", case,
                            f"stage {s.name} had outstanding work when the cancel was accepted (status {status_at[s.name]}) but ended {st_}")
    pending_then = run.__dict__.get("pending_at_accept", 0)
    nontrivial = any(outstanding.values()) and pending_then > 0
    c.case(("c17", spec, desc), nontrivial, classes + [f"final:{ws}", "accepted"],
           sample={"spec": spec["name"], "schedule": desc, "accepted_at_step": t_accept, "workflow": ws,
                   "stages": {s.name: s.status.name for s in wf.stages if s.parent_stage_id is None}} if nontrivial else None)


def run_case(spec: dict[str, Any], sd: dict[str, Any], cancel_at: int) -> Run:
    run = Run(spec, make_schedule(sd))
    run.injections.setdefault(cancel_at, []).append(inj_cancel())

    def after(r: Run, _m: Any) -> None:
        if "cancel_accepted_at" in r.__dict__:
            return
        row = r.w.rows("SELECT is_canceled, status FROM pipeline_executions WHERE id = ?", (r.wf_id,))
        if row and row[0][0]:
            # the flag is durable; it counts as accepted only on a workflow that was not final yet
            if r.deliveries and r.deliveries[-1][1] == "CancelWorkflow":
                r.__dict__["cancel_accepted_at"] = r.steps
                r.__dict__["pending_at_accept"] = r.w.queue_size()

    run.after_step = after
    return run.drain()


@st.composite
def cancel_spec(draw) -> dict[str, Any]:
    base = draw(st.one_of(
        st.sampled_from([v for k, v in core_corpus().items() if k not in ("choice",)]),
        dag_spec(max_stages=6, allow=("multi", "fail", "cof", "stop", "poll", "transient", "skip")),
        loop_spec(max_j=2),
    ))
    spec = {k: (([dict(s) for s in v]) if k == "stages" else v) for k, v in base.items()}
    for s in spec["stages"]:
        if draw(st.integers(0, 4)) == 0:
            s["cof"] = True  # continuePipelineOnFailure also on stages that do not fail
    return spec


def shard_random(prop: str, tier: str, seed: int, n: int) -> dict[str, Any]:
    c = Campaign(prop, tier, seed, LEVEL)

    @hseed(seed)
    @settings(max_examples=n, database=None, deadline=None, derandomize=False, suppress_health_check=list(HealthCheck),
              phases=[Phase.generate], report_multiple_bugs=False)
    @given(cancel_spec(), schedule_desc(), st.integers(0, 45))
    def t(spec, sd, at):
        run = run_case(spec, sd, at)
        desc = dict(sd)
        desc["cancel_at"] = at
        judge(c, spec, run, desc, [f"style:{sd['style']}"])

    t()
    return c.export()


def sweep_specs() -> dict[str, dict[str, Any]]:
    out = {k: v for k, v in core_corpus().items() if k != "choice"}
    out["loop-cycle3"] = make_loop("cycle3", 2, None)
    out["loop-side"] = make_loop("side", 1, None)
    # synthetic children: two sequential before-stages (the second is NOT_STARTED while the first runs), parallel ones, a child that
    # suspends, after-stages
    for nm, syn in (("syn-seq-before", {"before": ["ok", "ok"], "after": [], "parallel": False, "pre": False}),
                    ("syn-par-before", {"before": ["ok", "ok"], "after": ["ok"], "parallel": True, "pre": False}),
                    ("syn-gate-child", {"before": ["suspend"], "after": [], "parallel": False, "pre": False}),
                    ("syn-pre-after", {"before": ["ok"], "after": ["ok", "ok"], "parallel": False, "pre": True})):
        out[nm] = {"name": nm, "stages": [stage("a", [], [ok()]), stage("p", ["a"], [ok(), ok()], syn=syn), stage("z", ["p"], [ok()])]}
    # a conditional stage that is skipped, with before/after stages declared with the workflow
    out["syn-skipped-parent"] = {"name": "syn-skipped-parent", "stages": [
        stage("a", [], [ok()]), stage("p", ["a"], [ok(), ok()], enabled=False, syn={"before": ["ok"], "after": ["ok"], "parallel": False, "pre": True}),
        stage("b", ["a"], [ok(), ok(), ok()]), stage("z", ["p", "b"], [ok()])]}
    out["cof-pending"] = {"name": "cof-pending", "stages": [
        stage("a", [], [ok()]), stage("b", ["a"], [ok(), ok()], cof=True), stage("s", ["a"], [ok(), ok(), ok()], cof=True),
        stage("z", ["b", "s"], [ok()])]}
    return out


def shard_sweep(prop: str, tier: str, seed: int, name: str) -> dict[str, Any]:
    """Cancel injected before every delivery position of the FIFO run, and of two fixed shuffles."""
    c = Campaign(prop, tier, seed, LEVEL)
    spec = sweep_specs()[name]
    for sd in ({"style": "fifo", "d": [], "R": 2},
               {"style": "hold", "d": [], "R": 2, "hold": "CancelStage", "hold_for": 12},
               {"style": "hold", "d": [], "R": 2, "hold": "CancelWorkflow", "hold_for": 6}):
        base = Run(spec, make_schedule(sd)).drain()
        for at in range(base.steps + 1):
            run = run_case(spec, sd, at)
            desc = dict(sd)
            desc["cancel_at"] = at
            judge(c, spec, run, desc, ["sweep", f"style:{sd['style']}"])
    return c.export()


def _dispatch(fn, a):  # noqa: ANN001
    return fn(*a)


def shard_paused_cancel(prop: str, tier: str, seed: int, name: str) -> dict[str, Any]:
    """The operator pauses the workflow (before every delivery position), the engine goes quiet, then the cancel arrives: a paused
    workflow is cancelable like any other - nothing executes afterwards and it ends in a final status."""
    from vlib.engine_d import Schedule, inj_pause

    c = Campaign(prop, tier, seed, LEVEL)
    spec = core_corpus()[name]
    steps = Run(spec, Schedule()).drain().steps
    for at in range(steps + 1):
        tasks.reset_ledger()
        run = Run(spec, Schedule())
        run.injections.setdefault(at, []).append(inj_pause())
        run.drain()
        paused = run.workflow().status.name == "PAUSED"
        before = len(tasks.LEDGER)
        inj_cancel()(run)
        run.drain()
        got = run.outcome()
        case = {"kind": "paused-cancel", "spec": spec, "pause_at": at}
        if paused:
            if got["workflow"] not in oracles.COMPLETE:
                c.violation("not-final-after-cancel|paused", case, f"the workflow was PAUSED when the cancel was processed and is {got['workflow']} at quiescence; stages {got['stages']}")
            if len(tasks.LEDGER) > before:
                c.violation("task-started-after-cancel|paused", case, f"{len(tasks.LEDGER) - before} task execution(s) after the cancel of the paused workflow")
            left = {k: v for k, v in got["stages"].items() if v in ("RUNNING", "PAUSED", "SUSPENDED")}
            if left and got["workflow"] in oracles.COMPLETE:
                c.violation("stage-left-unfinished-after-cancel|paused", case, f"workflow {got['workflow']} but {left}")
        c.case(("c17p", name, at), paused, ["paused-cancel", "paused" if paused else "pause-not-applied"],
               sample={"spec": name, "pause_at": at, "workflow": got["workflow"]} if paused and at % 5 == 2 else None)
    return c.export()


def shard_race(prop: str, tier: str, seed: int, which: str) -> dict[str, Any]:
    """The CancelWorkflow handler interleaved at statement level with the handler that writes the workflow row next to it
    (StartWorkflow): whatever the interleaving, once both are through the cancel has been processed - nothing executes afterwards
    and the workflow ends CANCELED."""
    from checks import c06, c07
    from vlib.engine_d import Schedule
    from vlib.engine_i import explore, handle_one

    c = Campaign(prop, tier, seed, LEVEL)
    sc = c06.ctl_scenarios()[which]
    prep = c07.prepare_pair(sc)
    if not set(sc["hold"].split("|")) <= set(prep["pending"]):
        c.harness_error(f"race scenario {which}: held messages not both pending: {prep['pending']}")
        return c.export()
    mk = c07.make_pair_world(prep, sc)

    def j(w, s, pre):  # noqa: ANN001
        executed_before = len(tasks.LEDGER)
        run = Run(sc["spec"], Schedule(), world=w, max_steps=1500)
        run.steps = 1000
        run.drain()
        got = run.outcome()
        case = {"kind": "race", "scenario": which, "preemptions": {str(k): v for k, v in sorted(pre.items())}}
        flag = w.scalar("SELECT is_canceled FROM pipeline_executions WHERE id = 'W1'")
        if got["workflow"] != "CANCELED" or not flag:
            c.violation(f"not-final-after-cancel|race:{which}", case,
                        f"CancelWorkflow was handled beside {which.split('-vs-')[1]}: workflow {got['workflow']}, is_canceled={flag}, stages {got['stages']}")
        if len(tasks.LEDGER) > executed_before:
            c.violation(f"task-started-after-cancel|race:{which}", case,
                        f"{len(tasks.LEDGER) - executed_before} task execution(s) after both handlers were through: {[(e['stage'], e['task']) for e in tasks.LEDGER[executed_before:]][:3]}")
        c.case(("c17r", which, sorted(pre.items())), bool(pre) and s.switches > 0, ["race", f"race:{which}"],
               sample={"scenario": which, "preemptions": case["preemptions"], "workflow": got["workflow"]} if pre and len(c.samples) < 2 else None)

    n = explore(mk, lambda w: [handle_one(), handle_one()], j, max_preemptions=2 if tier == "quick" else 3, max_runs=6000)
    c.extra[f"schedules:race:{which}"] = n
    return c.export()


def run(c: Campaign, jobs: int) -> None:
    n = 2400 if c.tier == "quick" else 60000
    shards = max(1, jobs)
    args = [(shard_random, (c.prop, c.tier, c.seed * 1000 + k, max(1, n // shards))) for k in range(shards)]
    args += [(shard_sweep, (c.prop, c.tier, c.seed, name)) for name in sweep_specs()]
    args += [(shard_race, (c.prop, c.tier, c.seed, which)) for which in ("cancel-vs-startworkflow",)]
    args += [(shard_paused_cancel, (c.prop, c.tier, c.seed, name)) for name in ("chain", "diamond", "multitask", "poll", "before", "loop2")]
    run_shards(c, _dispatch, args, jobs)
    c.exhaustive_parts.append("CancelWorkflow interleaved with StartWorkflow at statement level: all schedules with <= 2 pre-emptions (thorough 3)")
    c.exhaustive_parts.append("cancel before every delivery position of the FIFO run and of two hold-back schedules (CancelStage / CancelWorkflow held) of 25 fixed specs")
    c.rule = ("case = (spec, schedule, cancel position). Non-trivial = the cancel was accepted while >= 1 stage had outstanding work and >= 1 "
              "message of the workflow was pending. Distinct = hash of the case.")
    c.assumptions += [
        "'accepted' = the delivery step in which the CancelWorkflow handler made the cancel flag durable on a workflow that was not final",
        "a stage whose tasks had all executed to a result before the accept step may still complete normally (the statement's 'in effect finished')",
        "synthetic children's final statuses are not judged, their executions after the accept step are",
        "single worker thread, except the CancelWorkflow / StartWorkflow race (two workers, harness-owned schedule); SQLite only",
    ]
    for cls in ("race", "paused-cancel", "accepted", "feat:jump", "feat:poll", "feat:suspend", "feat:after-child", "feat:continue-on-failure", "style:hold"):
        if c.classes.get(cls, 0) == 0:
            c.harness_error(f"generator starvation: class {cls} never produced")


def regress(c: Campaign, rec: dict[str, Any]) -> None:
    case = rec["case"]
    if case.get("kind") == "paused-cancel":
        c.merge(shard_paused_cancel(c.prop, c.tier, c.seed, case["spec"]["name"]))
        return
    if case.get("kind") == "race":
        c.merge(shard_race(c.prop, c.tier, c.seed, case["scenario"]))
        return
    sd = case["schedule"]
    run_ = run_case(case["spec"], sd, sd.get("cancel_at", 0))
    judge(c, case["spec"], run_, sd, ["regression"])


def replay(c: Campaign, rec: dict[str, Any]) -> int:
    regress(c, rec)
    for b, v in c.buckets.items():
        print(f"VIOLATION property={c.prop} replay=given\n  bucket: {b}\n  detail: {v['detail']}")
    if not c.buckets:
        print("replay: no violation")
    return 1 if c.buckets else 0
