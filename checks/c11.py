"""C11 - mutex admits one running stage; a deferred choice has exactly one winner.

Domain: a root stage with 2-3 children that share a mutex key / a deferred-choice group (and a mixed case: one
child in both); 2-3 workers racing the children's StartStage messages under ALL harness-owned schedules with a
bounded number of pre-emptions at SQL-statement / commit granularity, optionally with the retention sweep
cleanup_completed_stage_claims() running as an additional program at arbitrary yield points; plus generated
workflows containing mutex / choice groups under generated delivery schedules (reordering, lost acks, the
re-queued waiters) with the sweep injected at random steps.
Oracle: replaying the durable audit trail in order, no two stages with the same mutex key are ever RUNNING
together; at quiescence every mutex sibling has run exactly once (bounded liveness: waiters' delayed retries
are fast-forwarded); per choice group exactly one stage ever went NOT_STARTED -> RUNNING, the others end
CANCELED and never execute; the sweep never deletes the claim row of an unfinished execution.
"""

from __future__ import annotations

import json
import random
from typing import Any

from hypothesis import HealthCheck, Phase, given, seed as hseed, settings, strategies as st

from vlib import oracles, tasks
from vlib.campaign import Campaign
from vlib.engine_d import Run, Schedule
from vlib.engine_i import Sched, explore, handle_one, run_schedule
from vlib.par import map_raw, run_shards
from vlib.sched import make_schedule, schedule_desc
from vlib.spec import by_ref, features, ok, stage
from vlib.world import LONG_AGO, World

LEVEL = "exploration"


def scenarios() -> dict[str, dict[str, Any]]:
    def kids(k: int, **kw: Any) -> list[dict[str, Any]]:
        return [stage(f"c{i}", ["a"], [ok(), ok()], **kw) for i in range(k)]

    root = stage("a", [], [ok()])
    return {
        "mutex2": {"spec": {"name": "mutex2", "stages": [root] + kids(2, mutex="k") + [stage("z", ["c0", "c1"], [ok()])]}, "workers": 2},
        "mutex3": {"spec": {"name": "mutex3", "stages": [root] + kids(3, mutex="k") + [stage("z", ["c0", "c1", "c2"], [ok()])]}, "workers": 3},
        "choice2": {"spec": {"name": "choice2", "stages": [root] + kids(2, choice="g")}, "workers": 2},
        "choice3": {"spec": {"name": "choice3", "stages": [root] + kids(3, choice="g")}, "workers": 3},
        "mixed": {"spec": {"name": "mixed", "stages": [root, stage("c0", ["a"], [ok(), ok()], mutex="k", choice="g"), stage("c1", ["a"], [ok(), ok()], mutex="k"),
                                                         stage("c2", ["a"], [ok()], choice="g")]}, "workers": 3},
        "mutex2+sweep": {"spec": {"name": "mutex2", "stages": [root] + kids(2, mutex="k") + [stage("z", ["c0", "c1"], [ok()])]}, "workers": 2, "sweep": True},
        "choice2+sweep": {"spec": {"name": "choice2", "stages": [root] + kids(2, choice="g")}, "workers": 2, "sweep": True},
    }


def _key(row: dict[str, Any]) -> str:
    try:
        p = json.loads(row["payload"])
    except Exception:  # noqa: BLE001
        p = {}
    return f"{row['type']}:{(p.get('stage_id') or '').replace('W1-', '')}"


def prepare(sc: dict[str, Any]) -> dict[str, Any]:
    tasks.reset_ledger()
    run = Run(sc["spec"], Schedule())
    guard = 0
    while guard < 300:
        guard += 1
        rows = [r for r in run.eligible() if not (_key(r).startswith("StartStage:c"))]
        if not rows:
            break
        run.deliver(rows[0])
    return {"blob": run.w.snapshot(), "ledger": tasks.ledger_snapshot(), "pending": [_key(r) for r in run.w.pending()], "steps": run.steps}


def make_world_factory(prep: dict[str, Any]):
    def make() -> World:
        tasks.reset_ledger()
        tasks.LEDGER.extend(dict(e) for e in prep["ledger"])
        w = World(restore=prep["blob"], share_connection=True)
        w._harness_sql("UPDATE queue_messages SET deliver_at = ?, locked_until = NULL", (LONG_AGO,))
        w.set_ctx(prep["steps"] + 1, "concurrent")
        return w
    return make


def sweep_program(s: Sched, i: int) -> None:
    s.labels[i] = "retention-sweep"
    s.w.store.cleanup_completed_stage_claims()


def programs_for(sc: dict[str, Any]):
    def f(w: World):
        progs = [handle_one() for _ in range(sc["workers"])]
        if sc.get("sweep"):
            progs.append(sweep_program)
        return progs
    return f


def group_clauses(spec: dict[str, Any], audit: list[tuple[Any, ...]], got: dict[str, Any], final: bool, runs: int = 1) -> list[tuple[str, str]]:
    """Mutual exclusion over the audit trail; per-group winner uniqueness; everybody-ran at quiescence."""
    m = by_ref(spec)
    id2ref = {f"W1-{r}": r for r in m}
    viol: list[tuple[str, str]] = []
    running: dict[str, set[str]] = {}
    left_not_started: dict[str, list[str]] = {}
    wf_final = False
    for _seq, step, writer, kind, ident, old, new in audit:
        if kind == "workflow" and new in oracles.COMPLETE:
            # once the workflow is final its claims may legitimately be swept and no task executes any more (a deferred-choice
            # loser makes the workflow CANCELED while other branches are still in flight); mutual exclusion is judged up to here
            wf_final = True
        if kind != "stage" or ident not in id2ref:
            continue
        ref = id2ref[ident]
        key = m[ref].get("mutex")
        if key:
            cur = running.setdefault(key, set())
            if new == "RUNNING":
                cur.add(ref)
                if len(cur) > 1 and not wf_final:
                    viol.append(("mutex-two-running", f"mutex '{key}': {sorted(cur)} RUNNING together (step {step}, while handling {writer})"))
            elif ref in cur:
                cur.discard(ref)
        grp = m[ref].get("choice")
        if grp and old == "NOT_STARTED" and new == "RUNNING":
            left_not_started.setdefault(grp, []).append(ref)
    for grp, winners in left_not_started.items():
        if len(winners) > 1:
            viol.append(("choice-two-winners", f"choice group '{grp}': {winners} all started"))
    if final:
        groups: dict[str, list[str]] = {}
        for r, s in m.items():
            if s.get("choice"):
                groups.setdefault(s["choice"], []).append(r)
        for grp, refs in groups.items():
            reachable = [r for r in refs if all(got["stages"].get(u) in oracles.CONTINUABLE for u in m[r]["req"]) and m[r].get("enabled") is not False]
            if not reachable:
                continue
            winners = left_not_started.get(grp, [])
            if len(winners) != 1:
                viol.append(("choice-no-winner" if not winners else "choice-two-winners", f"choice group '{grp}': winners {winners}"))
                continue
            for r in reachable:
                if r == winners[0]:
                    continue
                if got["stages"].get(r) != "CANCELED":
                    viol.append(("choice-loser-not-canceled", f"choice group '{grp}': loser {r} ended {got['stages'].get(r)}"))
                if any(k.startswith(r + ".t") for k in got["counts"]):
                    viol.append(("choice-loser-executed", f"choice group '{grp}': loser {r} executed a task"))
        for r, s in m.items():
            if s.get("mutex") and not s.get("choice") and all(got["stages"].get(u) in oracles.CONTINUABLE for u in s["req"]):
                for i, t in enumerate(s["tasks"]):
                    if t.get("b", "ok") == "ok" and got["counts"].get(f"{r}.t{i}", 0) != runs and got["stages"].get(r) != "CANCELED":
                        viol.append(("mutex-sibling-did-not-run-once", f"{r}.t{i} executed {got['counts'].get(f'{r}.t{i}', 0)}x (stage {got['stages'].get(r)})"))
    return viol


def claims_intact(w: World, spec: dict[str, Any]) -> list[tuple[str, str]]:
    """While the execution is unfinished, the claim of every RUNNING mutex holder / started choice winner must exist."""
    out = []
    wf_status = w.scalar("SELECT status FROM pipeline_executions WHERE id = 'W1'")
    if wf_status in oracles.COMPLETE:
        return out
    rows = {(k, sid) for k, sid in w.rows("SELECT claim_key, stage_id FROM stage_claims WHERE execution_id = 'W1'")}
    keys = {k for k, _s in rows}
    for s in spec["stages"]:
        st_ = w.scalar("SELECT status FROM stage_executions WHERE id = ?", (f"W1-{s['ref']}",))
        if s.get("mutex") and st_ == "RUNNING" and f"mutex:{s['mutex']}" not in keys:
            out.append(("claim-of-live-execution-deleted", f"stage {s['ref']} is RUNNING but the claim mutex:{s['mutex']} is gone"))
        if s.get("choice") and st_ in ("RUNNING", "SUCCEEDED") and f"choice:{s['choice']}" not in keys:
            out.append(("claim-of-live-execution-deleted", f"stage {s['ref']} won the choice but the claim choice:{s['choice']} is gone"))
    return out


def judge(c: Campaign, name: str, sc: dict[str, Any], w: World, s: Sched, pre: dict[int, int], extra=()) -> None:
    case = {"kind": "race", "scenario": name, "preemptions": {str(k): v for k, v in sorted(pre.items())}}
    viol = claims_intact(w, sc["spec"])
    run = Run(sc["spec"], Schedule(), world=w, max_steps=1500)
    run.steps = 1000
    run.drain()
    got = run.outcome()
    viol += group_clauses(sc["spec"], w.audit(), got, final=True)
    if run.step_bound_hit:
        viol.append(("no-quiescence", "messages still deliverable after the step bound"))
    elif got["workflow"] not in oracles.COMPLETE:
        viol.append((f"stuck|{oracles.diagnose_stuck(run)}", f"workflow {got['workflow']}; stages {got['stages']}"))
    if any(e.startswith("harness:") for e in s.errors):
        c.harness_error(f"{name}: {s.errors[:2]}")
    for clause, detail in viol:
        c.violation(f"{clause}|{name}", case, detail + (f" (worker errors {s.errors[:1]})" if s.errors else ""))
    c.case(("c11", name, sorted(pre.items())), bool(pre) and s.switches > 0, [f"scenario:{name}", f"preemptions:{len(pre)}"] + list(extra),
           sample={"scenario": name, "preemptions": case["preemptions"], "stages": got["stages"]} if pre and len(c.samples) < 3 else None)


def shard_race(prop: str, tier: str, seed: int, name: str, P: int, roots: list[dict[int, int]] | None, expand: bool, n_random: int = 0) -> dict[str, Any]:
    c = Campaign(prop, tier, seed, LEVEL)
    sc = scenarios()[name]
    prep = prepare(sc)
    mk = make_world_factory(prep)
    children: list[dict[int, int]] = []

    def j(w: World, s: Sched, pre: dict[int, int]) -> None:
        judge(c, name, sc, w, s, pre, ["exhaustive"])
        if not expand and len(pre) < P:
            last = max(pre) if pre else -1
            for idx, cur, _l, runnable in s.trace:
                if idx > last:
                    for t in runnable:
                        if t != cur:
                            ch = dict(pre)
                            ch[idx] = t
                            children.append(ch)

    if n_random:
        rnd = random.Random(seed)
        w, s = run_schedule(mk, programs_for(sc), {})
        total = max(5, s.yields)
        nthreads = sc["workers"] + (1 if sc.get("sweep") else 0)
        for _ in range(n_random):
            pre = {rnd.randrange(0, total): rnd.randrange(0, nthreads) for _ in range(rnd.randint(3, 6))}
            w, s = run_schedule(mk, programs_for(sc), pre)
            judge(c, name, sc, w, s, pre, ["random-deep"])
        return c.export()
    cnt = explore(mk, programs_for(sc), j, max_preemptions=P if expand else 0, roots=roots)
    c.extra[f"schedules:{name}"] = cnt
    out = c.export()
    out["children"] = [{str(k): v for k, v in ch.items()} for ch in children]
    return out


# --------------------------------------------------------------------------- engine D part

@st.composite
def group_spec(draw) -> dict[str, Any]:
    stages = [stage("a", [], [ok()])]
    k = draw(st.integers(2, 4))
    for i in range(k):
        kind = draw(st.sampled_from(["mutex", "mutex", "mutex-gate", "choice", "plain", "both"]))
        s = stage(f"c{i}", ["a"], [ok()] * draw(st.integers(1, 2)))
        if kind == "mutex-gate":
            # an approval gate inside the critical section: the holder is SUSPENDED (not RUNNING, not finished) for a while
            s["tasks"] = [ok(), {"b": "suspend"}, ok()]
            s["mutex"] = "k"
        if kind in ("mutex", "both"):
            s["mutex"] = draw(st.sampled_from(["k", "k", "k2"]))
        if kind in ("choice", "both"):
            s["choice"] = "g"
            if draw(st.integers(0, 5)) == 0:
                s["enabled"] = False  # a member that is switched off (stageEnabled false) is skipped, it is no candidate
        if kind == "plain" and draw(st.booleans()):
            s["tasks"] = [{"b": "poll", "k": 1}]
        stages.append(s)
    if not any(s.get("choice") for s in stages) and draw(st.booleans()):
        stages.append(stage("z", [f"c{i}" for i in range(k)], [ok()]))
    return {"name": "groups", "stages": stages}


def shard_schedules(prop: str, tier: str, seed: int, n: int) -> dict[str, Any]:
    c = Campaign(prop, tier, seed, LEVEL)

    @hseed(seed)
    @settings(max_examples=n, database=None, deadline=None, derandomize=False, suppress_health_check=list(HealthCheck),
              phases=[Phase.generate], report_multiple_bugs=False)
    @given(group_spec(), schedule_desc(), st.lists(st.integers(0, 60), max_size=3), st.lists(st.integers(0, 70), min_size=4, max_size=4))
    def t(spec, sd, sweeps, sig_at):
        from vlib.engine_d import inj_signal

        run = Run(spec, make_schedule(sd), max_steps=2500)
        gates = [s_["ref"] for s_ in spec["stages"] if any(t_.get("b") == "suspend" for t_ in s_["tasks"])]
        for g, at in zip(gates, sig_at):
            run.injections.setdefault(at, []).append(inj_signal(g, "go", {}, True))
        bad: list[tuple[str, str]] = []
        for at in sweeps:
            def f(r: Run) -> None:
                r.w.set_ctx(r.steps, "retention-sweep")
                r.w.store.cleanup_completed_stage_claims()
                bad.extend(claims_intact(r.w, spec))
            run.injections.setdefault(at, []).append(f)
        run.drain()
        got = run.outcome()
        viol = bad[:2] + group_clauses(spec, run.w.audit(), got, final=not run.step_bound_hit)
        if run.step_bound_hit:
            viol.append(("no-quiescence", f"still deliverable after {run.steps} deliveries"))
        elif got["workflow"] not in oracles.COMPLETE and not oracles.explicitly_waiting(run):
            viol.append((f"stuck|{oracles.diagnose_stuck(run)}", f"workflow {got['workflow']}; stages {got['stages']}"))
        case = {"kind": "schedule", "spec": spec, "schedule": sd, "sweeps": sweeps, "signals": [[g, at] for g, at in zip(gates, sig_at)]}
        for clause, detail in viol:
            c.violation(f"{clause}|schedules", case, detail)
        feats = features(spec)
        c.case(("c11d", spec, sd, sweeps), bool(run.schedule.out_of_order or run.schedule.redelivered) and ("mutex" in feats or "choice" in feats),
               ["engine-D"] + [f"feat:{f}" for f in feats] + (["with-sweep"] if sweeps else []) + (["gate-in-critical-section"] if gates else []))

    t()
    return c.export()


def shard_gate_sweep(prop: str, tier: str, seed: int) -> dict[str, Any]:
    """A mutex holder that suspends inside its critical section; the releasing signal injected before every delivery position."""
    from vlib.engine_d import inj_signal

    c = Campaign(prop, tier, seed, LEVEL)
    spec = {"name": "mutex-gate", "stages": [stage("a", [], [ok()]), stage("c0", ["a"], [ok(), {"b": "suspend"}, ok()], mutex="k"),
                                               stage("c1", ["a"], [ok(), ok()], mutex="k"), stage("z", ["c0", "c1"], [ok()])]}
    for sd in ({"style": "fifo", "d": [], "R": 2}, {"style": "hold", "d": [], "R": 2, "hold": "SignalStage", "hold_for": 25}):
        for at in range(0, 70):
            run = Run(spec, make_schedule(sd), max_steps=2500)
            run.injections.setdefault(at, []).append(inj_signal("c0", "go", {}, True))
            run.drain()
            got = run.outcome()
            viol = group_clauses(spec, run.w.audit(), got, final=True)
            if got["workflow"] != "SUCCEEDED":
                viol.append(("gate-sweep-outcome", f"workflow {got['workflow']}; stages {got['stages']}"))
            for clause, detail in viol:
                c.violation(f"{clause}|gate-sweep", {"kind": "gate-sweep", "spec": spec, "schedule": sd, "signal_at": at}, detail)
            c.case(("c11g", sd["style"], at), True, ["gate-sweep", "gate-in-critical-section"])
    return c.export()


def loop_mutex_specs(j: int) -> dict[str, dict[str, Any]]:
    jt = lambda to: {"b": "jump", "to": to, "j": j, "emit": []}  # noqa: E731
    return {
        # holder and waiter in sequence inside the loop body: both are re-armed by the jump
        "seq-loop": {"name": "seq-loop", "stages": [stage("a", [], [ok()], mutex="k"), stage("b", ["a"], [jt("a")], mutex="k"), stage("z", ["b"], [ok()])]},
        # two mutex siblings inside the loop body
        "par-loop": {"name": "par-loop", "stages": [stage("a", [], [ok()]), stage("c0", ["a"], [ok()], mutex="k"), stage("c1", ["a"], [ok(), ok()], mutex="k"),
                                                    stage("r", ["c0", "c1"], [jt("a")]), stage("z", ["r"], [ok()])]},
        # a self-looping holder beside a waiter
        "self-loop": {"name": "self-loop", "stages": [stage("s", [], [ok()]), stage("a", ["s"], [jt("a")], mutex="k"), stage("w", ["s"], [ok()], mutex="k"),
                                                      stage("z", ["a", "w"], [ok()])]},
    }


def shard_loop_mutex(prop: str, tier: str, seed: int, n: int) -> dict[str, Any]:
    """Mutex stages re-armed by a jump loop: the claim of the previous iteration must not block the next one."""
    c = Campaign(prop, tier, seed, LEVEL)

    def one(name: str, j: int, sd: dict[str, Any]) -> None:
        spec = loop_mutex_specs(j)[name]
        run = Run(spec, make_schedule(sd), max_steps=1200)
        run.drain()
        got = run.outcome()
        # every mutex stage of these specs sits inside the loop body (w of self-loop does not): it runs once per iteration
        viol = [v for v in group_clauses(spec, run.w.audit(), got, final=not run.step_bound_hit, runs=j + 1) if not (name == "self-loop" and v[1].startswith("w."))]
        if name == "self-loop" and not run.step_bound_hit and got["counts"].get("w.t0", 0) != 1:
            viol.append(("mutex-sibling-did-not-run-once", f"w.t0 executed {got['counts'].get('w.t0', 0)}x"))
        if run.step_bound_hit:
            viol.append(("no-quiescence", f"still deliverable after {run.steps} deliveries; stages {got['stages']}"))
        elif got["workflow"] != "SUCCEEDED":
            viol.append((f"loop-not-finished|{oracles.diagnose_stuck(run)}", f"workflow {got['workflow']}; stages {got['stages']}; executions {got['counts']}"))
        for clause, detail in viol:
            c.violation(f"{clause}|loop-mutex", {"kind": "loop-mutex", "name": name, "j": j, "schedule": sd}, detail)
        c.case(("c11l", name, j, sd), True, ["loop-mutex", f"loop-mutex:{name}"])

    for name in loop_mutex_specs(1):
        for j in (1, 2):
            one(name, j, {"style": "fifo", "d": [], "R": 2})

    @hseed(seed)
    @settings(max_examples=n, database=None, deadline=None, derandomize=False, suppress_health_check=list(HealthCheck),
              phases=[Phase.generate], report_multiple_bugs=False)
    @given(st.sampled_from(sorted(loop_mutex_specs(1))), st.integers(1, 2), schedule_desc(max_len=60))
    def t(name, j, sd):
        one(name, j, sd)

    t()
    return c.export()


def _dispatch(fn, a):  # noqa: ANN001
    return fn(*a)


def run(c: Campaign, jobs: int) -> None:
    quick = c.tier == "quick"
    names = list(scenarios())

    def nthreads(n_: str) -> int:
        sc = scenarios()[n_]
        return sc["workers"] + (1 if sc.get("sweep") else 0)

    PS = {n_: ((2 if quick else 3) if nthreads(n_) == 2 else (1 if quick else 2)) for n_ in names}
    lvl = map_raw(_dispatch, [(shard_race, (c.prop, c.tier, c.seed, n_, PS[n_], None, False)) for n_ in names], jobs)
    args = []
    for n_, r in zip(names, lvl):
        kids = [{int(k): v for k, v in ch.items()} for ch in r.pop("children", [])]
        c.merge(r)
        for i in range(0, len(kids), 5):
            args.append((shard_race, (c.prop, c.tier, c.seed, n_, PS[n_], kids[i:i + 5], True)))
    for n_ in names:
        args.append((shard_race, (c.prop, c.tier, c.seed * 1000 + len(args), n_, 0, None, True, 20 if quick else 500)))
    n = 800 if quick else 20000
    shards = max(1, jobs)
    args += [(shard_schedules, (c.prop, c.tier, c.seed * 1000 + 700 + k, max(1, n // shards))) for k in range(shards)]
    args.append((shard_gate_sweep, (c.prop, c.tier, c.seed)))
    args += [(shard_loop_mutex, (c.prop, c.tier, c.seed * 1000 + 800 + k, 20 if quick else 600)) for k in range(4)]
    run_shards(c, _dispatch, args, jobs)
    for n_ in names:
        tot = sum(v for k, v in c.extra.items() if k == f"schedules:{n_}")
        c.exhaustive_parts.append(f"{n_}: all schedules with <= {PS[n_]} pre-emptions of {nthreads(n_)} threads: {tot} schedules")
    c.rule = ("case = (race scenario, pre-emption set) or (generated group spec, delivery schedule, sweep positions). Non-trivial race case = >= 1 effective "
              "pre-emption; non-trivial schedule case = a spec with a mutex or choice group under a non-FIFO schedule. Distinct = the case tuple.")
    c.assumptions += [
        "same scheduler assumptions as C04; the mutex waiter's delayed retries are fast-forwarded (bounded liveness)",
        "deferred-choice members are sibling alternatives with identical requisites",
        "mutual exclusion is judged until the workflow reaches a final status (a deferred-choice loser makes the workflow CANCELED early; claims of a final execution may be swept)",
    ]
    for cls in [f"scenario:{n_}" for n_ in names] + ["engine-D", "with-sweep", "feat:mutex", "feat:choice", "gate-in-critical-section"]:
        if c.classes.get(cls, 0) == 0:
            c.harness_error(f"generator starvation: class {cls} never produced")


def regress(c: Campaign, rec: dict[str, Any]) -> None:
    case = rec["case"]
    if case.get("kind") == "race":
        sc = scenarios()[case["scenario"]]
        prep = prepare(sc)
        pre = {int(k): v for k, v in case["preemptions"].items()}
        w, s = run_schedule(make_world_factory(prep), programs_for(sc), pre)
        judge(c, case["scenario"], sc, w, s, pre, ["regression"])


def replay(c: Campaign, rec: dict[str, Any]) -> int:
    regress(c, rec)
    for b, v in c.buckets.items():
        print(f"VIOLATION property={c.prop} replay=given\n  bucket: {b}\n  detail: {v['detail']}")
    if not c.buckets:
        print("replay: no violation")
    return 1 if c.buckets else 0
