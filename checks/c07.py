"""C07 - concurrent writers never silently overwrite each other.

Domain: (a) 2-3 writers on one stage through the public store API - each reads the stage (retrieve_stage),
changes a writer-specific context key / output key / the status / one task's fields, and saves with
store.store_stage() or inside store.transaction() together with a queue message; variants with and without
"on ConcurrencyError re-read and retry"; (b) engine pairs that touch one stage concurrently: two upstream
completions recording themselves on one first-of / quorum join, CancelStage against CompleteTask, SignalStage
against the RunTask result that suspends.  Interleavings are owned by the harness at statement / commit
granularity: all schedules with at most P pre-emptions plus random deeper ones.
Oracle: (a) of the writers that saved from one version without re-reading at most one returns normally, the
others raise ConcurrencyError; the final row contains the change of every writer that returned normally and of
none that raised; final version = initial + successful saves; the queue holds the message of exactly the
successful transactional writers; with retry every change is present.  (b) both branch ids recorded on the
join; after cancel-vs-complete the stage is in exactly one final state with consistent tasks; the signal is
neither lost nor duplicated.
"""

from __future__ import annotations

import json
import random
from typing import Any

from vlib import oracles, tasks
from vlib.campaign import Campaign
from vlib.engine_d import Run, Schedule, inj_cancel, inj_signal
from vlib.engine_i import Sched, explore, handle_one, handle_upto, run_schedule
from vlib.par import map_raw, run_shards
from vlib.spec import build_workflow, emit, ok, stage
from vlib.world import LONG_AGO, World

LEVEL = "exploration"

FIELDS = ["context", "outputs", "status", "task"]
VARIANTS = [(f, path, retry) for f in FIELDS for path in ("plain", "txn") for retry in (False, True)] + \
           [("context", "plain-phase", False), ("context", "txn-phase", False), ("outputs", "plain-phase", True), ("task", "plain-phase", False)] + \
           [(f, "txn-fault", retry) for f in ("context", "task") for retry in (False, True)]
# "txn-fault": the first transactional attempt is rolled back by a fault after txn.store_stage() succeeded (a failing
# later write / "database is locked" at commit), then the SAME object is saved again without re-reading - what
# TransactionHelper.execute_atomic's lock-contention retry does.


def api_world() -> World:
    tasks.reset_ledger()
    w = World(share_connection=True)
    spec = {"name": "api", "stages": [stage("s", [], [ok(), ok()], ctx={"base": 1})]}
    wf = build_workflow(spec)
    w.store.store(wf)
    w.set_ctx(1, "writers")
    return w


def writer_program(i: int, field: str, path: str, retry: bool, results: dict[int, Any]):
    def program(s: Sched, idx: int) -> None:
        from stabilize.errors import ConcurrencyError
        from stabilize.models.status import WorkflowStatus
        from stabilize.queue.messages import CancelRegion

        w = s.w
        s.labels[idx] = f"writer{i}"
        attempts = 0
        read_versions = []
        while True:
            attempts += 1
            stg = w.store.retrieve_stage("W1-s")
            read_versions.append(stg.version)
            if field == "context":
                stg.context[f"w{i}"] = i
            elif field == "outputs":
                stg.outputs[f"o{i}"] = i
            elif field == "status":
                stg.status = WorkflowStatus.RUNNING if i == 0 else (WorkflowStatus.SUSPENDED if i == 1 else WorkflowStatus.PAUSED)
                stg.context[f"w{i}"] = i
            else:
                stg.tasks[i % 2].status = WorkflowStatus.RUNNING
                stg.tasks[i % 2].task_exception_details = {f"t{i}": i}
                stg.context[f"w{i}"] = i
            phase = stg.status.name if field != "status" else "NOT_STARTED"
            if path == "txn-fault" and attempts == 1:
                import sqlite3 as _sq

                try:
                    with w.store.transaction(w.queue) as txn:
                        txn.store_stage(stg)
                        txn.push_message(CancelRegion(execution_id="W1", region=f"writer{i}"))
                        raise _sq.OperationalError("database is locked")  # injected: the transaction rolls back
                except _sq.OperationalError:
                    pass
                except ConcurrencyError:
                    if retry:
                        continue
                    results[i] = {"result": "conflict", "read_versions": read_versions, "attempts": attempts}
                    return
            try:
                if path.startswith("txn"):
                    with w.store.transaction(w.queue) as txn:
                        if path == "txn-phase":
                            txn.store_stage(stg, expected_phase=phase)
                        else:
                            txn.store_stage(stg)
                        txn.push_message(CancelRegion(execution_id="W1", region=f"writer{i}"))
                elif path == "plain-phase":
                    w.store.store_stage(stg, expected_phase=phase)
                else:
                    w.store.store_stage(stg)
                results[i] = {"result": "ok", "read_versions": read_versions, "attempts": attempts}
                return
            except ConcurrencyError:
                if retry and attempts < 6:
                    continue
                results[i] = {"result": "conflict", "read_versions": read_versions, "attempts": attempts}
                return
    return program


def judge_api(c: Campaign, w: World, s: Sched, pre: dict[int, int], variant: tuple[str, str, bool], n: int, results: dict[int, Any], extra=()) -> None:
    field, path, retry = variant
    case = {"kind": "api", "field": field, "path": path, "retry": retry, "writers": n, "preemptions": {str(k): v for k, v in sorted(pre.items())}}
    final = w.store.retrieve_stage("W1-s")
    ok_w = [i for i in range(n) if results.get(i, {}).get("result") == "ok"]
    bad_w = [i for i in range(n) if results.get(i, {}).get("result") == "conflict"]
    if len(ok_w) + len(bad_w) != n or any(e for e in s.errors):
        c.violation(f"writer-raised-other-error|{field}|{path}", case, f"results {results}; errors {s.errors[:2]}")
        return
    viol: list[tuple[str, str]] = []
    if not retry:
        by_version: dict[int, list[int]] = {}
        for i in ok_w:
            by_version.setdefault(results[i]["read_versions"][-1], []).append(i)
        for v, ws in by_version.items():
            if len(ws) > 1:
                viol.append(("two-saves-from-one-version", f"writers {ws} both saved successfully from version {v}"))
    else:
        if bad_w:
            viol.append(("retry-gave-up", f"writers {bad_w} still conflicted after 6 attempts"))
    marker_key = {"context": lambda i: final.context.get(f"w{i}") == i, "outputs": lambda i: final.outputs.get(f"o{i}") == i,
                  "status": lambda i: final.context.get(f"w{i}") == i, "task": lambda i: final.context.get(f"w{i}") == i}[field]
    for i in ok_w:
        if not marker_key(i):
            viol.append(("lost-update", f"writer {i} returned normally but its change is not in the final row (context {final.context}, outputs {final.outputs})"))
        if field == "task" and final.tasks[i % 2].task_exception_details.get(f"t{i}") != i and not any(j != i and j % 2 == i % 2 for j in ok_w):
            viol.append(("lost-task-update", f"writer {i} returned normally but its task change is missing: {final.tasks[i % 2].task_exception_details}"))
    for i in bad_w:
        if marker_key(i):
            viol.append(("phantom-update", f"writer {i} raised ConcurrencyError but its change is in the final row"))
    if final.version != len(ok_w):
        viol.append(("version-count", f"final version {final.version}, {len(ok_w)} successful saves"))
    regions = sorted(json.loads(r[0]).get("region") for r in w.rows("SELECT payload FROM queue_messages WHERE message_type = 'CancelRegion'"))
    want = sorted(f"writer{i}" for i in ok_w) if path.startswith("txn") else []
    if regions != want:
        viol.append(("queue-vs-saves", f"queued messages {regions}, successful transactional writers {want}"))
    for clause, detail in viol:
        c.violation(f"{clause}|{field}|{path}|{'retry' if retry else 'noretry'}", case, detail)
    same_version = len({tuple(results[i]["read_versions"][:1]) for i in range(n)}) < n
    c.case(("c07a", variant, n, sorted(pre.items())), same_version and bool(pre),
           [f"api:{field}", f"path:{path}", "retry" if retry else "noretry", f"writers:{n}", f"outcome:{len(ok_w)}ok-{len(bad_w)}conflict"] + list(extra),
           sample={"variant": list(variant), "writers": n, "preemptions": case["preemptions"], "results": {str(k): v for k, v in results.items()},
                   "final_version": final.version} if same_version and pre and len(c.samples) < 3 else None)


def shard_api(prop: str, tier: str, seed: int, variant: tuple[str, str, bool], n: int, P: int, roots: list[dict[int, int]] | None, expand: bool) -> dict[str, Any]:
    c = Campaign(prop, tier, seed, LEVEL)
    holder: dict[str, Any] = {}
    children: list[dict[int, int]] = []

    def mk() -> World:
        holder["results"] = {}
        return api_world()

    def progs(w: World):
        return [writer_program(i, variant[0], variant[1], variant[2], holder["results"]) for i in range(n)]

    def j(w: World, s: Sched, pre: dict[int, int]) -> None:
        judge_api(c, w, s, pre, variant, n, holder["results"], ["exhaustive"])
        if not expand and len(pre) < P:
            last = max(pre) if pre else -1
            for idx, cur, _l, runnable in s.trace:
                if idx > last:
                    for t in runnable:
                        if t != cur:
                            ch = dict(pre)
                            ch[idx] = t
                            children.append(ch)

    cnt = explore(mk, progs, j, max_preemptions=P if expand else 0, roots=roots)
    c.extra[f"schedules:api:{variant[0]}:{variant[1]}:{'retry' if variant[2] else 'noretry'}:{n}w"] = cnt
    out = c.export()
    out["children"] = [{str(k): v for k, v in ch.items()} for ch in children]
    return out


# --------------------------------------------------------------------------- engine pairs

def pair_scenarios() -> dict[str, dict[str, Any]]:
    fork = {"name": "fork", "stages": [stage("a", [], [ok()]), stage("b0", ["a"], [ok()]), stage("b1", ["a"], [ok()]),
                                         stage("j", ["b0", "b1"], [ok()], join="DISC"), stage("z", ["j"], [ok()])]}
    forkq = {"name": "forkq", "stages": [stage("a", [], [ok()]), stage("b0", ["a"], [ok()]), stage("b1", ["a"], [ok()]), stage("b2", ["a"], [ok()]),
                                           stage("j", ["b0", "b1", "b2"], [ok()], join="NOFM", threshold=3), stage("z", ["j"], [ok()])]}
    chain = {"name": "chain", "stages": [stage("a", [], [ok()]), stage("s", ["a"], [ok(), ok()]), stage("z", ["s"], [ok()])]}
    gate = {"name": "gate", "stages": [stage("a", [], [ok()]), stage("g", ["a"], [{"b": "suspend", "emit": [emit("k_g")]}]), stage("z", ["g"], [ok()])]}
    return {
        "two-completions-disc": {"spec": fork, "hold": "CompleteStage:b0|CompleteStage:b1", "workers": 2, "kind": "join"},
        "three-completions-nofm": {"spec": forkq, "hold": "CompleteStage:b0|CompleteStage:b1|CompleteStage:b2", "workers": 3, "kind": "join"},
        "cancel-vs-completetask": {"spec": chain, "hold": "CompleteTask:s|CancelStage:s", "workers": 2, "kind": "cancel", "cancel_when": "CompleteTask:s"},
        "signal-vs-suspend-persistent": {"spec": gate, "hold": "RunTask:g|SignalStage:g", "workers": 2, "kind": "signal", "persistent": True, "signal_when": "RunTask:g"},
        "signal-vs-suspend-transient": {"spec": gate, "hold": "RunTask:g|SignalStage:g", "workers": 2, "kind": "signal", "persistent": False, "signal_when": "RunTask:g"},
        # the signal handler buffers on the NOT_STARTED gate while StartStage claims / plans it
        "signal-vs-startstage-persistent": {"spec": gate, "hold": "StartStage:g|SignalStage:g", "workers": 2, "kind": "signal", "persistent": True, "signal_when": "StartStage:g"},
        # a signal buffered before the gate suspends is consumed in the suspending commit, which queues the resume RunTask;
        # a second worker of the same process polls it while the first is still inside its handler
        "buffered-resume-vs-second-worker": {"spec": gate, "hold": "RunTask:g", "workers": 2, "kind": "signal", "persistent": True, "signal_when": "StartStage:g",
                                             "second_worker_polls": 3},
        # the gate is the target of a jump: JumpToStage re-arms it (and hands it the jump context) while the signal handler
        # buffers a persistent signal on it
        "signal-vs-jump-persistent": {"spec": {"name": "gatejump", "stages": [stage("a", [], [{"b": "jump", "to": "g", "j": 1, "emit": []}]), stage("b", ["a"], [ok()]),
                                                                              stage("g", ["b"], [{"b": "suspend", "emit": [emit("k_g")]}]), stage("z", ["g"], [ok()])]},
                                      "hold": "JumpToStage:a|SignalStage:g", "workers": 2, "kind": "signal", "persistent": True, "signal_when": "JumpToStage:a"},
        # ... and the same with an earlier signal already in the gate's buffer (the gate suspends twice and needs both)
        "signal-vs-jump-second-signal": {"spec": {"name": "gatejump2", "stages": [stage("a", [], [{"b": "jump", "to": "g", "j": 1, "emit": []}]), stage("b", ["a"], [ok()]),
                                                                                  stage("g", ["b"], [{"b": "suspend", "k": 2, "emit": [emit("k_g")]}]), stage("z", ["g"], [ok()])]},
                                         "hold": "JumpToStage:a|SignalStage:g", "workers": 2, "kind": "signal", "persistent": True, "signal_when": "JumpToStage:a",
                                         "pre_signal": True, "expect_exec": 3},
        "signal-vs-startstage-transient": {"spec": gate, "hold": "StartStage:g|SignalStage:g", "workers": 2, "kind": "signal", "persistent": False, "signal_when": "StartStage:g"},
    }


def pair_programs(sc: dict[str, Any]):
    if sc.get("second_worker_polls"):
        return [handle_one(), handle_upto(sc["second_worker_polls"])]
    return [handle_one() for _ in range(sc["workers"])]


def _key(row: dict[str, Any]) -> str:
    try:
        p = json.loads(row["payload"])
    except Exception:  # noqa: BLE001
        p = {}
    return f"{row['type']}:{(p.get('stage_id') or '').replace('W1-', '')}"


def prepare_pair(sc: dict[str, Any]) -> dict[str, Any]:
    held = set(sc["hold"].split("|"))
    tasks.reset_ledger()
    run = Run(sc["spec"], Schedule())
    injected = False
    guard = 0
    if sc.get("pre_signal"):
        # an earlier persistent signal, sent and handled before anything else: it sits in the gate's buffer from the start
        inj_signal("g", "go0", {"p": 0}, True)(run)
        run.deliver([r for r in run.eligible() if _key(r) == "SignalStage:g"][0])
    while guard < 500:
        guard += 1
        pend = [_key(r) for r in run.w.pending()]
        trig = sc.get("cancel_when") or sc.get("signal_when")
        if trig and not injected and trig in pend:
            injected = True
            if sc["kind"] == "cancel":
                inj_cancel()(run)
            else:
                inj_signal("g", "go", {"p": 1}, sc["persistent"])(run)
        rows = [r for r in run.eligible() if _key(r) not in held]
        if not rows:
            break
        run.deliver(rows[0])
    return {"blob": run.w.snapshot(), "ledger": tasks.ledger_snapshot(), "pending": [_key(r) for r in run.w.pending()], "steps": run.steps}


def make_pair_world(prep: dict[str, Any], sc: dict[str, Any]):
    def make() -> World:
        tasks.reset_ledger()
        tasks.LEDGER.extend(dict(e) for e in prep["ledger"])
        w = World(restore=prep["blob"], share_connection=True)
        # only the held messages race; everything else waits for the sequential drain
        held = set(sc["hold"].split("|"))
        for r in w.pending():
            if _key(r) in held:
                w._harness_sql("UPDATE queue_messages SET deliver_at = ?, locked_until = NULL WHERE id = ?", (LONG_AGO, r["id"]))
            else:
                w._harness_sql("UPDATE queue_messages SET deliver_at = '2100-01-01T00:00:00+00:00' WHERE id = ?", (r["id"],))
        w.set_ctx(prep["steps"] + 1, "concurrent")
        return w
    return make


def judge_pair(c: Campaign, name: str, sc: dict[str, Any], w: World, s: Sched, pre: dict[int, int], extra=()) -> None:
    run = Run(sc["spec"], Schedule(), world=w)
    run.steps = 1000
    run.drain()
    got = run.outcome()
    case = {"kind": "pair", "scenario": name, "preemptions": {str(k): v for k, v in sorted(pre.items())}}
    viol: list[tuple[str, str]] = []
    if any(e.startswith("harness:") for e in s.errors):
        c.harness_error(f"{name}: {s.errors[:2]}")
    if sc["kind"] == "join":
        ctx = json.loads(w.scalar("SELECT context FROM stage_executions WHERE id = 'W1-j'") or "{}")
        branches = sorted(ctx.get("_completed_branches", []))
        want = sorted(r for r in sc["spec"]["stages"][3 if name.startswith("two") else 4]["req"])
        if branches != want:
            viol.append(("join-bookkeeping-lost", f"_completed_branches = {branches}, completed upstreams {want}"))
        if got["workflow"] != "SUCCEEDED" or got["counts"].get("j.t0") != 1:
            viol.append(("join-outcome", f"workflow {got['workflow']}, j executed {got['counts'].get('j.t0', 0)}x, stages {got['stages']}"))
    elif sc["kind"] == "cancel":
        st_ = got["stages"].get("s")
        ts = [got["tasks"].get("s.t0"), got["tasks"].get("s.t1")]
        if st_ != "CANCELED" or any(t in ("RUNNING", "NOT_STARTED") for t in ts):
            viol.append(("cancel-vs-complete-inconsistent", f"stage s {st_}, tasks {ts}"))
        if got["workflow"] != "CANCELED":
            viol.append(("cancel-outcome", f"workflow {got['workflow']}; stages {got['stages']}"))
        if got["counts"].get("s.t1", 0):
            viol.append(("task-ran-after-cancel", f"s.t1 executed {got['counts']['s.t1']}x after the cancel was accepted"))
    else:
        n = got["counts"].get("g.t0", 0)
        gst = got["stages"].get("g")
        buf = json.loads(w.scalar("SELECT context FROM stage_executions WHERE id = 'W1-g'") or "{}").get("_buffered_signals")
        released = n == sc.get("expect_exec", 2) and gst == "SUCCEEDED" and got["workflow"] == "SUCCEEDED" and not buf
        untouched = n == 1 and gst == "SUSPENDED" and got["workflow"] == "RUNNING" and not buf
        if sc["persistent"]:
            if not released:
                viol.append(("persistent-signal-lost-or-duplicated", f"gate executed {n}x, gate {gst}, workflow {got['workflow']}, buffer {buf}"))
        elif not (released or untouched):
            viol.append(("transient-signal-half-applied", f"gate executed {n}x, gate {gst}, workflow {got['workflow']}, buffer {buf}"))
    if got["queue"] or got["dlq"]:
        viol.append(("stranded-message", f"queue {got['queue']} DLQ {got['dlq']}"))
    for clause, detail in viol:
        c.violation(f"{clause}|{name}", case, detail + (f" (worker errors {s.errors[:1]})" if s.errors else ""))
    c.case(("c07b", name, sorted(pre.items())), bool(pre) and s.switches > 0, [f"pair:{name}", f"preemptions:{len(pre)}"] + list(extra),
           sample={"scenario": name, "preemptions": case["preemptions"], "outcome": {"workflow": got["workflow"], "stages": got["stages"]}} if pre and len(c.samples) < 4 else None)


def shard_pair(prop: str, tier: str, seed: int, name: str, P: int, roots: list[dict[int, int]] | None, expand: bool, n_random: int = 0) -> dict[str, Any]:
    c = Campaign(prop, tier, seed, LEVEL)
    sc = pair_scenarios()[name]
    prep = prepare_pair(sc)
    mk = make_pair_world(prep, sc)
    children: list[dict[int, int]] = []

    def progs(w: World):
        return pair_programs(sc)

    def j(w: World, s: Sched, pre: dict[int, int]) -> None:
        judge_pair(c, name, sc, w, s, pre, ["exhaustive"])
        if not expand and len(pre) < P:
            last = max(pre) if pre else -1
            for idx, cur, _l, runnable in s.trace:
                if idx > last:
                    for t in runnable:
                        if t != cur:
                            ch = dict(pre)
                            ch[idx] = t
                            children.append(ch)

    if n_random:
        rnd = random.Random(seed)
        w, s = run_schedule(mk, progs, {})
        total = max(5, s.yields)
        for _ in range(n_random):
            pre = {rnd.randrange(0, total): rnd.randrange(0, sc["workers"]) for _ in range(rnd.randint(3, 6))}
            w, s = run_schedule(mk, progs, pre)
            judge_pair(c, name, sc, w, s, pre, ["random-deep"])
        return c.export()
    cnt = explore(mk, progs, j, max_preemptions=P if expand else 0, roots=roots)
    c.extra[f"schedules:pair:{name}"] = cnt
    c.extra[f"pending:{name}"] = prep["pending"]
    out = c.export()
    out["children"] = [{str(k): v for k, v in ch.items()} for ch in children]
    return out


def _dispatch(fn, a):  # noqa: ANN001
    return fn(*a)


def run(c: Campaign, jobs: int) -> None:
    quick = c.tier == "quick"
    P2, P3 = (3, 1) if quick else (4, 2)
    pre_args = []
    for v in VARIANTS:
        pre_args.append((shard_api, (c.prop, c.tier, c.seed, v, 2, P2, None, False)))
    for v in [("context", "plain", False), ("context", "txn", True), ("task", "txn", False)]:
        pre_args.append((shard_api, (c.prop, c.tier, c.seed, v, 3, P3, None, False)))
    PP = {n_: ((2 if quick else 3) if sc["workers"] == 2 else (1 if quick else 2)) for n_, sc in pair_scenarios().items()}
    for n_ in pair_scenarios():
        pre_args.append((shard_pair, (c.prop, c.tier, c.seed, n_, PP[n_], None, False)))
    lvl = map_raw(_dispatch, pre_args, jobs)
    args = []
    for a, r in zip(pre_args, lvl):
        kids = [{int(k): v for k, v in ch.items()} for ch in r.pop("children", [])]
        c.merge(r)
        fn, params = a
        chunk = 8 if fn is shard_api else 5
        for i in range(0, len(kids), chunk):
            if fn is shard_api:
                args.append((shard_api, (*params[:6], kids[i:i + chunk], True)))
            else:
                args.append((shard_pair, (*params[:5], kids[i:i + chunk], True)))
    for n_ in pair_scenarios():
        args.append((shard_pair, (c.prop, c.tier, c.seed * 1000 + len(args), n_, 0, None, True, 20 if quick else 500)))
    run_shards(c, _dispatch, args, jobs)
    c.exhaustive_parts.append(f"store API: 20 variants (field x save path incl. expected-phase saves x retry) with 2 writers, all schedules with <= {P2} pre-emptions; 3 variants with 3 writers, <= {P3}; "
                              f"5 engine pairs, all schedules with <= 2 (2 workers) / 1 (3 workers) pre-emptions" + ("" if quick else " (thorough: one more each)"))
    c.rule = ("case = (writer variant or engine pair, schedule as a set of pre-emption points). Non-trivial (a) = two writers held the same version at the same "
              "time (both read before either wrote) under >= 1 pre-emption; (b) = a schedule with >= 1 effective pre-emption. Distinct = (variant, pre-emption set).")
    c.assumptions += [
        "shared in-memory connection, baton never moves inside a transaction: equivalent to statement-level interleaving under SQLite's single-writer semantics",
        "writers are plain public-API read-modify-write sequences (retrieve_stage -> store_stage / transaction)",
        "transient signal racing the suspension: both 'effective' and 'no effect at all' are accepted, anything in between is not",
    ]
    for cls in ["api:context", "api:outputs", "api:status", "api:task", "path:txn", "retry", "writers:3", "outcome:1ok-1conflict"] + [f"pair:{n_}" for n_ in pair_scenarios()]:
        if c.classes.get(cls, 0) == 0:
            c.harness_error(f"generator starvation: class {cls} never produced")


def regress(c: Campaign, rec: dict[str, Any]) -> None:
    case = rec["case"]
    pre = {int(k): v for k, v in case["preemptions"].items()}
    if case["kind"] == "pair":
        sc = pair_scenarios()[case["scenario"]]
        prep = prepare_pair(sc)
        w, s = run_schedule(make_pair_world(prep, sc), lambda w_: pair_programs(sc), pre)
        judge_pair(c, case["scenario"], sc, w, s, pre, ["regression"])
    else:
        results: dict[int, Any] = {}
        v = (case["field"], case["path"], case["retry"])
        w, s = run_schedule(api_world, lambda w_: [writer_program(i, v[0], v[1], v[2], results) for i in range(case["writers"])], pre)
        judge_api(c, w, s, pre, v, case["writers"], results, ["regression"])


def replay(c: Campaign, rec: dict[str, Any]) -> int:
    regress(c, rec)
    for b, v in c.buckets.items():
        print(f"VIOLATION property={c.prop} replay=given\n  bucket: {b}\n  detail: {v['detail']}")
    if not c.buckets:
        print("replay: no violation")
    return 1 if c.buckets else 0
