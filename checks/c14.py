"""C14 - transient failures: bounded number of retries, saved progress is kept.

Domain: k consecutive transient failures for k = 0 .. limit+3 and "forever", with and without a
context update, the failing task at position 1-3 of its stage, the stage in a chain or under a join,
FIFO and shuffled schedules (lost acks, hold-back); polling tasks that save context on every poll.
Oracle (retry model; limit = the message default max_attempts = 10): attempt n+1 sees exactly the
progress attached to failure n and every key a polling attempt saved; k <= 3 -> the task succeeds after
exactly k+1 executions and the workflow SUCCEEDS; k = forever -> at most limit+1 executions, task, stage
and workflow end TERMINAL and the run quiesces within the model's step bound; 4 <= k <= limit is accepted
either way (off-by-one conventions are not the property).
"""

from __future__ import annotations

import json
from typing import Any

from hypothesis import HealthCheck, Phase, given, seed as hseed, settings, strategies as st

from vlib import oracles, tasks
from vlib.campaign import Campaign
from vlib.engine_d import Run
from vlib.par import run_shards
from vlib.sched import make_schedule, schedule_desc
from vlib.spec import emit, ok, stage

LEVEL = "exploration"
LIMIT = 10


PROGS = ("int", "list-fresh", "list-inplace", "dict-inplace")


def make_spec(k: int, upd: bool, pos: int, ntasks: int, shape: str, poll_k: int, raise_style: str = "bare", prog: str = "int") -> dict[str, Any]:
    tasks_: list[dict[str, Any]] = [ok() for _ in range(ntasks)]
    tasks_[pos] = {"b": "transient", "k": k, "upd": upd, "raise": raise_style, "emit": [emit("k_f")], "prog": prog}
    if poll_k and ntasks > 1:
        other = (pos + 1) % ntasks
        tasks_[other] = {"b": "poll", "k": poll_k, "prog": prog}
    if shape == "chain":
        st_ = [stage("a", [], [ok(emit("k_a"))]), stage("f", ["a"], tasks_), stage("z", ["f"], [ok()])]
    elif shape == "join":
        st_ = [stage("a", [], [ok()]), stage("f", ["a"], tasks_), stage("g", ["a"], [ok(), ok()]), stage("z", ["f", "g"], [ok()])]
    else:
        st_ = [stage("f", [], tasks_)]
    return {"name": f"tr-k{k}-{'upd' if upd else 'noupd'}-{raise_style}-{prog}-p{pos}of{ntasks}-{shape}-poll{poll_k}", "stages": st_,
            "c14": {"k": k, "upd": upd, "pos": pos, "shape": shape, "poll_k": poll_k, "ntasks": ntasks, "raise": raise_style, "prog": prog}}


def _count(v: Any) -> int:
    """Progress recorded in a seen value: the counter itself, or the number of items accumulated in a container."""
    return len(v) if isinstance(v, (list, dict)) else (v or 0)


def judge(c: Campaign, spec: dict[str, Any], run: Run, desc: Any, extra=()) -> None:
    p = spec["c14"]
    k, upd, pos = p["k"], p["upd"], p["pos"]
    got = run.outcome()
    led = [e for e in tasks.ledger_snapshot() if e["stage"] == "f" and e["task"] == pos]
    n = len(led)
    viol: list[tuple[str, str]] = []
    forever = k < 0
    if run.step_bound_hit:
        viol.append(("retries-unbounded", f"no quiescence within {run.steps} deliveries; task executed {n}x (limit {LIMIT})"))
    elif forever:
        if n > LIMIT + 1:
            viol.append(("retries-unbounded", f"task executed {n}x, limit {LIMIT}"))
        if got["workflow"] != "TERMINAL" or got["stages"].get("f") != "TERMINAL" or got["tasks"].get(f"f.t{pos}") != "TERMINAL":
            viol.append(("not-terminal-after-limit", f"workflow {got['workflow']}, stage f {got['stages'].get('f')}, task {got['tasks'].get(f'f.t{pos}')} after {n} executions"))
    elif k <= 3:
        if n != k + 1:
            viol.append(("wrong-execution-count", f"k={k}: task executed {n}x, expected {k + 1}"))
        if got["workflow"] != "SUCCEEDED":
            viol.append(("not-succeeded", f"k={k}: workflow {got['workflow']}, stage f {got['stages'].get('f')}"))
    else:
        ok_success = n == k + 1 and got["workflow"] == "SUCCEEDED"
        ok_terminal = n <= LIMIT + 1 and got["workflow"] == "TERMINAL" and got["stages"].get("f") == "TERMINAL"
        if not (ok_success or ok_terminal):
            viol.append(("band-outcome", f"k={k}: {n} executions, workflow {got['workflow']}, stage f {got['stages'].get('f')}"))
    if upd:
        key = f"_prog{pos}"
        for i, e in enumerate(led):
            want = min(i, k) if k >= 0 else i
            have = _count(e["seen"].get(key, 0))
            if have != want:
                viol.append(("progress-lost", f"attempt {i + 1} saw {key}={have}, expected {want} (progress attached to failure {i})"))
                break
    if p["poll_k"] and p["ntasks"] > 1:
        other = (pos + 1) % p["ntasks"]
        pl = [e for e in tasks.ledger_snapshot() if e["stage"] == "f" and e["task"] == other]
        for i, e in enumerate(pl):
            have = _count(e["seen"].get(f"_poll{other}", 0))
            if have != min(i, p["poll_k"]):
                viol.append(("poll-context-lost", f"poll attempt {i + 1} saw _poll{other}={have}, expected {min(i, p['poll_k'])}"))
                break
        if pl and not forever and (k <= 3) and len(pl) != p["poll_k"] + 1:
            viol.append(("poll-count", f"polling task executed {len(pl)}x, expected {p['poll_k'] + 1}"))
    case = {"spec": spec, "schedule": desc}
    for clause, detail in viol:
        c.violation(clause, case, detail, sig=p)
    c.case(("c14", spec["name"], desc), k >= 2 or k < 0,
           [f"k:{'forever' if k < 0 else k}", "upd" if upd else "noupd", f"pos:{pos}", f"shape:{p['shape']}", f"poll:{p['poll_k']}", f"prog:{p.get('prog', 'int')}"] + list(extra),
           sample={"spec": spec["name"], "schedule": desc, "executions": n, "workflow": got["workflow"],
                   "progress_seen": [_count(e["seen"].get(f"_prog{pos}", 0)) for e in led][:14]} if (k >= 2 or k < 0) else None)


def bound_for(k: int) -> int:
    return 40 * LIMIT + 400


def shard_grid(prop: str, tier: str, seed: int, ks: list[int]) -> dict[str, Any]:
    """FIFO grid over k x update x position (x shape)."""
    c = Campaign(prop, tier, seed, LEVEL)
    for k in ks:
        for upd in (True, False):
            for ntasks, pos in ((1, 0), (3, 0), (3, 1), (3, 2)):
                for shape in ("chain", "join"):
                    if not upd and (ntasks, pos) not in ((1, 0), (3, 1)):
                        continue
                    for rs in (("bare", "from", "cause", "from-transient", "from-stale") if upd and shape == "chain" else ("bare",)):
                        for prog in (PROGS if upd and rs == "bare" and shape == "chain" else ("int",)):
                            spec = make_spec(k, upd, pos, ntasks, shape, poll_k=2 if ntasks > 1 else 0, raise_style=rs, prog=prog)
                            run = Run(spec, max_steps=bound_for(k)).drain()
                            judge(c, spec, run, {"style": "fifo", "d": [], "R": 2}, ["grid", f"raise:{rs}"])
    return c.export()


def shard_commits(prop: str, tier: str, seed: int, k: int) -> dict[str, Any]:
    """The mechanism named by the property - the progress is stored in the same commit as the retry message - read off
    every durable state of the run: whenever a retry RunTask carrying attempt number a is queued, the stored progress is the
    progress of a failures; and the same for a task that polls (RUNNING result): its saved context is durable with the re-poll."""
    import sqlite3

    from vlib.engine_k import crash_states

    c = Campaign(prop, tier, seed, LEVEL)
    for prog in PROGS:
        for rs in ("bare", "from"):
            spec = make_spec(k, True, 0, 1, "chain", 0, raise_style=rs, prog=prog)
            states = crash_states(spec)
            bad = None
            checked = 0
            for cs in states:
                con = sqlite3.connect(":memory:")
                try:
                    con.deserialize(cs["blob"])
                    ctx = json.loads((con.execute("SELECT context FROM stage_executions WHERE id = 'W1-f'").fetchone() or ["{}"])[0] or "{}")
                    have = _count(ctx.get("_prog0", 0))
                    for (payload,) in con.execute("SELECT payload FROM queue_messages WHERE message_type = 'RunTask'"):
                        pl = json.loads(payload)
                        if pl.get("stage_id") != "W1-f":
                            continue
                        a = int(pl.get("attempts") or 0)
                        checked += 1
                        if a >= 1 and have < min(a, k) and bad is None:
                            bad = (cs["index"], a, have)
                finally:
                    con.close()
            case = {"kind": "commits", "spec": spec}
            if bad:
                c.violation("retry-durable-without-progress", case,
                            f"after commit {bad[0]} a retry RunTask with attempts={bad[1]} is queued while the stored progress is {bad[2]}: the progress attached to the failure is not in the commit that queues the retry")
            c.case(("c14c", spec["name"]), k >= 2, ["commit-points", f"k:{k}", f"prog:{prog}"],
                   sample={"spec": spec["name"], "commit_points": len(states), "retry_messages_seen": checked} if k >= 2 and prog == "int" else None)
    return c.export()


def shard_random(prop: str, tier: str, seed: int, n: int) -> dict[str, Any]:
    c = Campaign(prop, tier, seed, LEVEL)

    @hseed(seed)
    @settings(max_examples=n, database=None, deadline=None, derandomize=False, suppress_health_check=list(HealthCheck),
              phases=[Phase.generate], report_multiple_bugs=False)
    @given(st.sampled_from([-1, 0, 1, 2, 3, 4, 7, 9, 10, 11, 13]), st.booleans(), st.integers(1, 3), st.integers(0, 2),
           st.sampled_from(["chain", "join", "single"]), st.integers(0, 2), schedule_desc(), st.sampled_from(["bare", "from", "cause", "from-transient", "from-stale"]),
           st.sampled_from(PROGS))
    def t(k, upd, ntasks, pos, shape, poll_k, sd, rs, prog):
        spec = make_spec(k, True, pos % ntasks, ntasks, shape, poll_k, raise_style=rs, prog=prog)
        spec["c14"]["upd"] = True  # shuffled runs always carry progress (the no-update variant counts attempts in harness memory)
        run = Run(spec, make_schedule(sd), max_steps=bound_for(k)).drain()
        judge(c, spec, run, sd, [f"style:{sd['style']}", f"raise:{rs}"])

    t()
    return c.export()


def _dispatch(fn, a):  # noqa: ANN001
    return fn(*a)


def run(c: Campaign, jobs: int) -> None:
    ks = [-1] + list(range(0, LIMIT + 4))
    args = [(shard_grid, (c.prop, c.tier, c.seed, [k])) for k in ks]
    args += [(shard_commits, (c.prop, c.tier, c.seed, k)) for k in (1, 2, 3, 5)]
    n = 480 if c.tier == "quick" else 20000
    shards = max(1, jobs)
    args += [(shard_random, (c.prop, c.tier, c.seed * 1000 + i, max(1, n // shards))) for i in range(shards)]
    run_shards(c, _dispatch, args, jobs)
    c.exhaustive_parts.append("every commit point of the FIFO run for k in {1,2,3,5} x 4 progress shapes x 2 raise styles: a queued retry never precedes its progress")
    c.exhaustive_parts.append("FIFO grid: k in {forever, 0..13} x {with, without context_update} x task position {1 of 1, 1/2/3 of 3} x {chain, join}")
    c.rule = ("case = (k transient failures, context_update on/off, how the error is raised (bare / 'from' a low-level error / cause=), task position, stage placement, polling sibling task, schedule). "
              "Non-trivial = k >= 2 or forever. Distinct = hash of (spec name, schedule).")
    c.assumptions += [
        f"limit = Message.max_attempts default ({LIMIT}); 4 <= k <= limit accepted either way",
        "back-off delays are fast-forwarded by the harness (deliver_at rewritten); no wall clock in any verdict",
        "step bound 40 x limit + 400 deliveries stands in for 'retried forever'",
        "SQLite backend only",
    ]
    for cls in ("k:forever", "k:0", "k:3", "k:13", "upd", "noupd", "pos:2", "shape:join", "style:hold", "raise:from", "raise:cause", "prog:list-inplace", "prog:dict-inplace", "prog:list-fresh"):
        if c.classes.get(cls, 0) == 0:
            c.harness_error(f"generator starvation: class {cls} never produced")


def regress(c: Campaign, rec: dict[str, Any]) -> None:
    case = rec["case"]
    if case.get("kind") == "commits":
        r = shard_commits(c.prop, c.tier, c.seed, case["spec"]["c14"]["k"])
        c.merge(r)
        return
    run_ = Run(case["spec"], make_schedule(case["schedule"]), max_steps=bound_for(0)).drain()
    judge(c, case["spec"], run_, case["schedule"], ["regression"])


def replay(c: Campaign, rec: dict[str, Any]) -> int:
    regress(c, rec)
    for b, v in c.buckets.items():
        print(f"VIOLATION property={c.prop} replay=given\n  bucket: {b}\n  detail: {v['detail']}")
    if not c.buckets:
        print("replay: no violation")
    return 1 if c.buckets else 0
