#!/bin/bash
# setup_cmd: offline install of the generator libraries next to the repo's packages.
set -u
HERE="$(cd "$(dirname "$0")" && pwd)"
WH=/opt/veriftools/wheels
/venv/bin/python -c "import hypothesis" 2>/dev/null || \
  /venv/bin/pip install --no-index --find-links "$WH" hypothesis >/dev/null 2>&1 || \
  { echo "setup: cannot install hypothesis" >&2; exit 1; }
mkdir -p "$HERE/.deps"
if ! PYTHONPATH="$HERE/.deps" /venv/bin/python -c "import atheris" 2>/dev/null; then
  /venv/bin/pip install --no-index --find-links "$WH" --target "$HERE/.deps" atheris >/dev/null 2>&1 || \
    echo "setup: atheris not installable; fuzz sub-campaigns will be skipped (reported in evidence)" >&2
fi
/venv/bin/python -c "import hypothesis; print('setup ok: hypothesis', hypothesis.__version__)"
