#!/bin/bash
# usage: tools_seedregress.sh [dir-id ...]  -- re-evaluates stashed seeds (all by default) against /repo HEAD: each must still be caught (rc=1)
cd /verif
IDS="$@"; [ -z "$IDS" ] && IDS=$(ls seeded)
for d in $IDS; do
  prop=$(/venv/bin/python -c "import json;print(json.load(open('/verif/seeded/$d/meta.json'))['breaks_property'])")
  out=$(./tools_seed2.sh "$d" "$prop" 2>&1 | grep -E "^RESULT|DOES NOT APPLY" | tail -1)
  echo "$d $prop :: $out"
done
