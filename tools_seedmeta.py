#!/venv/bin/python
"""usage: tools_seedmeta.py <dir-id> <property> <caught: yes|no|partly> <needs...> -- writes seeded/<id>/meta.json"""
import json, sys, os, subprocess
sid, prop, caught, needs, detected_by, ran = sys.argv[1:7]
d = f"/verif/seeded/{sid}"
head = subprocess.run(["git", "-C", "/repo", "log", "--format=%h", "-1"], capture_output=True, text=True).stdout.strip()
meta = {
    "id": sid, "breaks_property": prop, "source": "independent sub-agent (given only the property text and a scratch worktree)",
    "needs_to_manifest": needs, "repo_head_when_confirmed": head,
    "confirmed": "demonstration exits 0 on /repo HEAD and 1 with patch.diff applied (scratch worktree); existing suite reported passing by the sub-agent (non-postgres tests)",
    "what_was_run": ran, "detected": caught, "detected_by": detected_by,
}
json.dump(meta, open(os.path.join(d, "meta.json"), "w"), indent=1)
print("wrote", d + "/meta.json")
