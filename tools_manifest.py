#!/venv/bin/python
"""Regenerates MANIFEST.json from the table below (kept in code so it always validates)."""
import json, os

HERE = os.path.dirname(os.path.abspath(__file__))
CHECKS = {}  # filled by register()

def register(pid, category, text, note, technique, design_ref):
    CHECKS[pid] = dict(category=category, text=text, note=note, technique=technique, design_ref=design_ref)

register("C20", "exploration",
 "Generated stage graphs (valid by construction + injected duplicate/self/unknown/cycle defects) judged by an independent validator and a permutation/order check of topological_sort; grammar-generated, raw-text, deep-nesting and atheris-fuzzed expressions judged by 'returns or raises ExpressionError, context unchanged, callable never invoked' plus a truthiness differential against Python eval. Random search: absence is not established.",
 "Trusts CPython's ast/eval for the differential; contexts are JSON values plus one callable sentinel; atheris campaign only approximately seed-reproducible.",
 "Hypothesis generators + atheris coverage-guided fuzzing against reference validator / totality oracle / eval differential",
 "DESIGN.md section 3 C20")

NOT_APPLICABLE = {}

def main():
    props = [json.loads(l) for l in open(os.path.join(HERE, "properties.jsonl"))]
    checks = []
    for p in props:
        pid = p["id"]
        if pid not in CHECKS:
            continue
        c = CHECKS[pid]
        checks.append({
            "property_id": pid,
            "quick_cmd": f"./vcheck {pid} --tier quick",
            "thorough_cmd": f"./vcheck {pid} --tier thorough",
            "evidence_file": f"evidence/{pid}.json",
            "replay_cmd_template": f"./vcheck {pid} --replay {{path}}",
            "engine": "vlib",
            "level_claimed": {"category": c["category"], "text": c["text"], "design_ref": c["design_ref"]},
            "level_note": c["note"],
            "technique": c["technique"],
        })
    na = [{"property_id": p["id"], "reason": NOT_APPLICABLE.get(p["id"], "check not built yet in this revision (planned: see DESIGN.md section 3); no claim is made")}
          for p in props if p["id"] not in CHECKS]
    man = {
        "version": 1,
        "setup_cmd": "./setup.sh",
        "hooks": {
            "guard": "STABILIZE_VERIF",
            "enable": "no source hooks exist: the harness observes the engine from its own process (sqlite3 connection factory shim, SQL triggers, scripted Task, public entry points); checks import /repo/src of the working tree directly",
            "baseline_off_cmd": "cd /repo && /venv/bin/python -m pytest -ra -q -p no:cacheprovider --timeout=900 --continue-on-collection-errors",
            "source_commits": [],
            "add_only": True,
        },
        "engines": [
            {"name": "vlib", "path": "vlib/", "serves_properties": sorted(CHECKS),
             "kind_free_text": "property-based testing harness: Hypothesis generators/stateful machines, delivery-schedule driver, crash-point enumerator, interleaving scheduler, atheris fuzz targets"},
        ],
        "checks": checks,
        "not_applicable": na,
        "notes": "All checks: exit 0 = held on everything explored (KNOWN-FINDING lines allowed), exit 1 + VIOLATION line, exit 2 = harness error. Genuine defects repaired in /repo are listed under 'fixed' in known_findings.json.",
    }
    with open(os.path.join(HERE, "MANIFEST.json"), "w") as f:
        json.dump(man, f, indent=1)
    print("MANIFEST.json:", len(checks), "checks,", len(na), "not_applicable")

if __name__ == "__main__":
    main()
