#!/venv/bin/python
"""Regenerates MANIFEST.json from the table below (kept in code so it always validates)."""
import json, os

HERE = os.path.dirname(os.path.abspath(__file__))
CHECKS = {}  # filled by register()

def register(pid, category, text, note, technique, design_ref):
    CHECKS[pid] = dict(category=category, text=text, note=note, technique=technique, design_ref=design_ref)

register("C20", "exploration",
 "Generated stage graphs (valid by construction + injected duplicate/self/unknown/cycle defects) judged by an independent validator and a permutation/order check of topological_sort; grammar-generated, raw-text, deep-nesting and atheris-fuzzed expressions judged by 'returns or raises ExpressionError, context unchanged, callable never invoked' (a truthiness differential against Python eval is reported as an observation class only). Random search: absence is not established.",
 "Trusts CPython's ast/eval for the differential; contexts are JSON values plus one callable sentinel; atheris campaign only approximately seed-reproducible.",
 "Hypothesis generators + atheris coverage-guided fuzzing against reference validator / totality oracle / eval differential",
 "DESIGN.md section 3 C20")

register("C02", "exploration",
 "Generated workflows (core corpus, random DAGs, loops, early-firing joins) are run under generated delivery schedules (reordering, up to 3 lost acks per row, hold-back bias on one message type) and, for 6 tiny specs, under every (row x ack/lose) choice in a window of d deliveries; each run is compared with the FIFO exactly-once run of the same engine (equality on confluent specs, validity predicate on racy ones), stage starts <= 1 + re-arms, execution counts equal. Random + bounded-exhaustive search; no absence claim beyond the enumerated windows.",
 "Single worker thread (interleavings are C04/C07/C11); fairness rule for self re-queuing wait messages; SQLite only; reference is the engine's own FIFO run.",
 "Hypothesis-generated specs x schedules + bounded-exhaustive schedule DFS, differential against the FIFO run",
 "DESIGN.md section 3 C02")

register("C03", "exploration",
 "Generated DAGs with every join type, failing/skipped branches and OR-splits of known truth are run under generated schedules with injected early/late/duplicate StartStage messages, plus an exhaustive sweep of one injected StartStage over every (stage, delivery position) of 27 fixed specs; for every task execution the join condition is re-evaluated by an independent model over the durable audit trail up to the preceding step. Random + enumerated search.",
 "Upstream statuses are reconstructed from trigger-written audit rows; single worker thread; OR-split truth values are literals; SQLite only.",
 "Hypothesis-generated DAGs x schedules x injected StartStage, invariant over the execution history checked by a reference join model",
 "DESIGN.md section 3 C03")
register("C05", "exploration",
 "Generated workflows emphasising halting failures beside running siblings, early-firing joins, synthetic before/after children, mutex, deferred choice, gates and jump loops are driven under generated schedules (with duplicate StartStage injections) until nothing is deliverable; at that quiescent point the workflow must be final or explicitly waiting, SUCCEEDED implies all top-level stages continuable, a TERMINAL stage implies a failed workflow, nothing is left RUNNING (dead-lettered messages are counted, not asserted). An operator pause before every delivery position of 10 corpus workflows is judged at quiescence, resumed and judged again. Bounded liveness by exhaustive delivery; random search over specs and schedules.",
 "Liveness is bounded liveness under the fairness rule (DESIGN 2.5); single worker; SQLite only.",
 "Hypothesis-generated specs x schedules, validity predicate at quiescence",
 "DESIGN.md section 3 C05")
register("C06", "exploration",
 "Every durable status change observed (SQL-trigger audit rows) in engine-D runs with injected cancel/signal/recovery/duplicate-StartStage operations - and, where built, engine-K crash recoveries and engine-I races - is checked against VALID_TRANSITIONS imported from the code under test, with only JumpToStage/RestartStage allowed to re-arm. Random search; evaluations are audit rows.",
 "Audit rows are written by harness-installed triggers; the writer is the message type in flight; a change to the published table itself is out of scope.",
 "invariant over generated histories (trigger audit of durable status changes vs. the published transition table)",
 "DESIGN.md section 3 C06")

register("C14", "exploration",
 "A FIFO grid over k transient failures (forever, 0..13) x context_update on/off x how the error is raised x task position x chain/join placement, plus Hypothesis-drawn shuffled schedules, judged by a retry model: attempt n+1 sees the progress of failure n, poll context is kept, k<=3 succeeds after exactly k+1 executions, 'forever' is TERMINAL within limit+1 executions and a model-derived step bound; at every commit point of the FIFO run a queued retry implies the stored progress of its failures. Grid enumerated; schedules random.",
 "limit = Message.max_attempts default (10); 4<=k<=limit accepted either way; delays fast-forwarded by rewriting deliver_at; SQLite only.",
 "enumerated grid + Hypothesis schedules against a reference retry model",
 "DESIGN.md section 3 C14")
register("C15", "exploration",
 "A FIFO grid of 10 loop shapes x budget x requested jumps plus Hypothesis-drawn loops (incl. random loops built by construction) under generated schedules, judged by an independent abstract interpreter of the documented jump semantics: applied jumps = min(requested, budget), over-budget/unknown target => source and workflow TERMINAL, per-stage execution counts equal the re-arm closure model, forward-jump bypassed stages SKIPPED and never executed, number of handled jump requests, quiescence within a model-derived step bound.",
 "One task per stage and AND joins in loop workloads; loop bodies without fan-in from outside the loop; re-armed branches running beside the loop body have a schedule-dependent count (1..applied+1); single worker; SQLite only.",
 "enumerated grid + Hypothesis loops x schedules against a reference loop model",
 "DESIGN.md section 3 C15")
register("C16", "exploration",
 "For every task execution of generated DAG / loop / reducer workloads under generated schedules, the context handed to Task.execute is compared with a model built from the ledger: visible keys = own + transitive ancestors' current outputs, scalar value = own or a maximal producer's current-iteration value, lists = duplicate-free union, reducers = fold of direct branches; apply_output_reducers is additionally checked on random multisets under all branch permutations.",
 "Ancestor outputs are re-derived from recorded executions by an independent re-statement of the emit scripts; incomparable maximal producers: any accepted; integer reducer inputs.",
 "Hypothesis-generated DAGs x schedules, reference data-visibility model over the execution ledger; permutation metamorphic test for reducers",
 "DESIGN.md section 3 C16")
register("C17", "exploration",
 "A cancel is injected before every delivery position of FIFO and two hold-back schedules of 25 fixed specs, and at random positions of Hypothesis-drawn (spec, schedule) pairs; with t = the step at which the cancel flag became durable: no task executes after t, the workflow ends final, CANCELED unless in effect finished (or TERMINAL already recorded), no stage left NOT_STARTED/RUNNING/SUSPENDED/PAUSED, stages with outstanding work at t end CANCELED. Also: CancelWorkflow interleaved with StartWorkflow at statement level (all schedules within a pre-emption bound), and a cancel arriving on a workflow the operator paused at every delivery position.",
 "'Outstanding work' is computed from the ledger and the behaviour scripts; synthetic children's final statuses are not judged; single worker; SQLite only.",
 "exhaustive cancel-position sweep + Hypothesis specs x schedules, invariant over the history",
 "DESIGN.md section 3 C17")

register("C01", "fault_enumeration",
 "For every explored spec (core corpus + Hypothesis-drawn DAG / loop / early-join specs) EVERY commit point of its FIFO run is taken as a crash state (the durable bytes after that commit; interval with a task in flight: external effect absent and present), the engine is restarted from it (all in-memory state dropped), locks lapse, one recovery sweep runs and the queue is drained; outcome signature, per-task execution counts (+1 only for the in-flight task), upstream data seen, queue/DLQ emptiness and no half-started residue are compared with the uninterrupted run. Thorough tier adds every pair of successive crashes (second crash at every commit of the recovery run) for 10 corpus specs. The crash index is enumerated; specs are sampled.",
 "SQLite's atomic commit is trusted (the state after a kill between commits i and i+1 is commit i's bytes; no torn writes); restart resets the engine singletons the harness knows of; post-crash delivery is FIFO and, for the corpus workflows, 4 fixed non-FIFO orders of the first deliveries; SQLite only.",
 "crash-point enumeration over generated workloads (commit-hook snapshots + restart), differential against the uninterrupted run",
 "DESIGN.md section 3 C01")
register("C13", "fault_enumeration",
 "With the event store in the workflow database, the per-entity count equality 'completion events recorded by CompleteTask/CompleteStage == durable completions written by that handler' (and status agreement) is evaluated INSIDE the durable bytes of every commit of the FIFO run of the explored specs, after restart+recovery from sampled crash states, and after three kinds of fault injected at every completion step (transient error / plain error right after the event append, forced optimistic-lock conflict); a synchronous bus subscriber asserts at call time that no transaction is open and the event is durable, and at the end that nothing published was rolled back; sequences strictly increasing.",
 "Event store on the same SQLite database; only completion events of the regular completion steps are asserted; synchronous bus only; the handler's own non-transient error path (which records no event) is recognised by the injected error text and exempted.",
 "crash-point enumeration + fault injection at enumerated completion steps, invariant over each durable snapshot",
 "DESIGN.md section 3 C13")

register("C10", "exploration",
 "One and two recovery sweeps are injected before EVERY delivery position of the FIFO run (and one per position under two hold-back schedules, plus 'a sweep before every step') of the corpus specs, and at random positions of Hypothesis-drawn (spec, schedule) pairs in which the sweep's extra messages may overtake the originals; each run is judged against the sweep-free FIFO run (exact execution counts and data on confluent specs, validity predicate on racy ones). After a crash: one sweep vs two from every sampled (thorough: every) crash state must give the same signature.",
 "A sweep running concurrently with a handler (statement-level interleaving) is not covered in this revision; single worker; SQLite only.",
 "exhaustive sweep-position enumeration + Hypothesis specs x schedules, differential against the sweep-free run; crash-state metamorphic relation (recover x1 == recover x2)",
 "DESIGN.md section 3 C10")
register("C12", "exploration",
 "Generated workflows (success, failures, skip, cancel, loops, gate+signal) are run crash-free under generated schedules with the event store in the workflow database; then (1) the replayed status of the workflow and of every entity whose last durable change came from a regular lifecycle step is compared with the store, (2) rebuild(as_of=s) is compared with an independent fold of the events <= s for EVERY prefix, (3) for EVERY snapshot position p the snapshot+tail rebuild (and as-of queries at/after p) is compared with the snapshot-free rebuild; a cancel is additionally injected before every delivery position of 9 workflows with the fan-out delivered in order and with one message type held back.",
 "The fold oracle is an independent re-implementation of the documented event semantics; task-level skips leave no event by the engine's design and are not compared; crash-free runs; same-database event store.",
 "Hypothesis specs x schedules; per run exhaustive prefix and snapshot-position enumeration against a reference fold / round-trip",
 "DESIGN.md section 3 C12")

register("C09", "exploration",
 "(a) Hypothesis RuleBasedStateMachine over the in-memory duplicate filter (mark_seen / hydrate / reset / maybe_seen, drawn sizes and false-positive rates, arbitrary id strings) against a set model, judged after every step; (b) workflows run with every ack withheld, each handled message redelivered at later points in the same process, after a forced rotation, after a rotation by age inside a handler, after a process restart, to a peer worker hydrated earlier, after the retention sweep ran on a record still inside the retention window, and after the handler failed behind its own commit, negative-cache option off and on: a message whose processed record is durable must not reach its handler or execute a task, and the outcome equals the redelivery-free run.",
 "Peer worker modelled by swapping the module-global filter; peer + negative-cache-on excluded (documented single-writer precondition); SQLite only.",
 "Hypothesis stateful machine vs. set model + generated redelivery histories with handler-invocation oracle",
 "DESIGN.md section 3 C09")
register("C19", "exploration",
 "Hypothesis-built workflows with every persisted field (all enum members, unicode, nested/large JSON, int64 timestamps, 0-4 tasks) are stored and read back (retrieve and retrieve_stage) and compared field by field; then one stage is changed in a drawn subset of fields through a drawn save path (store.store_stage, txn.store_stage, txn.store_stage with expected phase) and the whole workflow is compared with 'before + the changes'; an instance of every message class with drawn field values is pushed through both push paths and delivered, compared field by field, and the two payloads are compared with each other.",
 "JSON-representable values only; fields the tree never persists are excluded; stage order not asserted; delivery metadata re-assigned by the queue is excluded.",
 "Hypothesis round-trip / metamorphic update test and differential between the two serialisers",
 "DESIGN.md section 3 C19")

register("C08", "exploration",
 "Hypothesis-generated histories (<= 40/80 operations) of two workers on one queue table - push (plain/transactional/delayed), poll_one, ack, stale ack, reschedule, extend_lock, lock lapse, passage of time, a handler failing up to the attempt limit, check_and_move_expired, move_to_dlq, replay_dlq - are judged after every operation against a reference queue model (who may be handed what, attempts, places, replay fidelity) and, for conservation (each marker in exactly one of queue / DLQ / acknowledged), after every commit inside every operation, i.e. at every crash point of those operations.",
 "Time is owned by the harness (deliver_at / locked_until rewritten); default limits; sequential histories - statement-level interleavings of concurrent pollers are not covered in this revision; ties on deliver_at unordered.",
 "Hypothesis-generated operation histories against a reference queue model; commit-hook conservation invariant",
 "DESIGN.md section 3 C08")

register("C18", "exploration",
 "For 10 gate workflows (incl. gates behind a retry loop and as a forward-jump target) a persistent and a transient signal is injected before EVERY delivery position of the FIFO run and of a SignalStage-hold-back schedule, and at drawn positions with drawn payloads under Hypothesis schedules; every sampled (thorough: every) crash point of the signalled and un-signalled run is recovered. Persistent: gate task runs exactly twice, second run sees name+payload, gate and workflow finish, buffer empty; transient: effective iff the gate was durably SUSPENDED when the handler ran, else no effect; no signal: gate stays SUSPENDED across restart and recovery. Further shards: a gate suspending twice with two persistent signals, a gate re-armed by a loop / operator restart needing a signal of its own, a gate that is a declared before-stage beside a finishing sibling, and the SignalStage handler interleaved at statement level with the suspending RunTask, StartStage and JumpToStage.",
 "Statement-level interleavings are explored within a pre-emption bound for fixed scenarios (shared with C07); SQLite only.",
 "exhaustive signal-position sweep + Hypothesis schedules + crash-point enumeration, reference outcome per signal kind",
 "DESIGN.md section 3 C18")

register("C04", "exploration",
 "Thirteen racing-start scenarios (AND / first-of / quorum joins with 2-3 simultaneous StartStage messages, duplicated StartStage of an initial stage, first-of / quorum joins whose late branch completes while the join starts) are executed by 2-3 workers whose interleaving the harness owns at SQL-statement / commit granularity: ALL schedules with <= P pre-emptions (P=2 for 2 workers, 1 for 3; thorough 3/2) plus random deeper ones, then a sequential drain in FIFO order and in one other order; exactly one start, one plan (one StartTask), one execution per task, one downstream start, SUCCEEDED.",
 "Shared in-memory connection with the baton never moving inside a transaction = statement-level interleaving under SQLite's single-writer semantics; SQLITE_BUSY outcomes and pre-emption inside C code are out of reach; bounded by the pre-emption bound.",
 "bounded-exhaustive schedule enumeration (pre-emption bounding) + random schedules over a harness-owned scheduler, invariant over the audit/ledger",
 "DESIGN.md section 3 C04")

register("C07", "exploration",
 "(a) 2-3 public-API read-modify-write writers on one stage (16 variants: changed field x plain/transactional save x with/without retry; 3 three-writer variants) and (b) five engine pairs (two/three upstream completions recording themselves on one first-of/quorum join, CancelStage vs CompleteTask, SignalStage vs the suspending RunTask result, persistent and transient) run under ALL harness-owned schedules with a bounded number of pre-emptions at SQL-statement/commit granularity plus random deeper ones; oracle: at most one success per read version, final row = exactly the successful writers' changes, version = #successes, queue = successful transactional writers, retry => all changes; pairs: no bookkeeping lost, one consistent final state, signal neither lost nor duplicated.",
 "Same scheduler assumptions as C04 (shared connection, baton never inside a transaction); pre-emption bound 3 (2 writers) / 1 (3 writers) in the quick tier.",
 "bounded-exhaustive interleaving enumeration over a harness-owned scheduler, linearizability-style oracle over writer results and final row",
 "DESIGN.md section 3 C07")

register("C11", "exploration",
 "Seven race scenarios (2-3 children sharing a mutex key / a deferred-choice group / both, with and without the retention sweep as an extra thread) under ALL harness-owned schedules with a bounded number of pre-emptions plus random deeper ones; generated workflows with mutex / choice groups (including mutex holders that suspend at a gate inside the critical section) under generated delivery schedules with the sweep and the releasing signal injected at random steps; and a sweep of the releasing signal over every position of a fixed suspended-holder spec. Oracle over the audit trail: never two RUNNING per mutex key, every mutex sibling runs exactly once, exactly one choice winner, losers CANCELED and never executed, no claim of a live execution deleted.",
 "Same scheduler assumptions as C04; waiters' delayed retries fast-forwarded (bounded liveness); choice members are sibling alternatives.",
 "bounded-exhaustive interleaving enumeration + Hypothesis specs x schedules, invariant over the durable audit trail",
 "DESIGN.md section 3 C11")

NOT_APPLICABLE = {}

def main():
    props = [json.loads(l) for l in open(os.path.join(HERE, "properties.jsonl"))]
    checks = []
    for p in props:
        pid = p["id"]
        if pid not in CHECKS:
            continue
        c = CHECKS[pid]
        checks.append({
            "property_id": pid,
            "quick_cmd": f"./vcheck {pid} --tier quick",
            "thorough_cmd": f"./vcheck {pid} --tier thorough",
            "evidence_file": f"evidence/{pid}.json",
            "replay_cmd_template": f"./vcheck {pid} --replay {{path}}",
            "engine": "vlib",
            "level_claimed": {"category": c["category"], "text": c["text"], "design_ref": c["design_ref"]},
            "level_note": c["note"],
            "technique": c["technique"],
        })
    na = [{"property_id": p["id"], "reason": NOT_APPLICABLE.get(p["id"], "check not built yet in this revision (planned: see DESIGN.md section 3); no claim is made")}
          for p in props if p["id"] not in CHECKS]
    man = {
        "version": 1,
        "setup_cmd": "./setup.sh",
        "hooks": {
            "guard": "STABILIZE_VERIF",
            "enable": "no source hooks exist: the harness observes the engine from its own process (sqlite3 connection factory shim, SQL triggers, scripted Task, public entry points); checks import /repo/src of the working tree directly",
            "baseline_off_cmd": "cd /repo && /venv/bin/python -m pytest -ra -q -p no:cacheprovider --timeout=900 --continue-on-collection-errors",
            "source_commits": [],
            "add_only": True,
        },
        "engines": [
            {"name": "vlib", "path": "vlib/", "serves_properties": sorted(CHECKS),
             "kind_free_text": "property-based testing harness: Hypothesis generators/stateful machines, delivery-schedule driver, crash-point enumerator, interleaving scheduler, atheris fuzz targets"},
        ],
        "checks": checks,
        "not_applicable": na,
        "notes": "All checks: exit 0 = held on everything explored (KNOWN-FINDING lines allowed), exit 1 + VIOLATION line, exit 2 = harness error. Genuine defects repaired in /repo are listed under 'fixed' in known_findings.json.",
    }
    with open(os.path.join(HERE, "MANIFEST.json"), "w") as f:
        json.dump(man, f, indent=1)
    print("MANIFEST.json:", len(checks), "checks,", len(na), "not_applicable")

if __name__ == "__main__":
    main()
