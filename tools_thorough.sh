#!/bin/bash
# runs every thorough tier once (evidence under scratch/), one line per check
for p in ${CHECKS:-C08 C09 C12 C13 C14 C20 C15 C16 C19 C17 C11 C04 C07 C06 C18 C03 C05 C10 C02 C01}; do
  START=$(date +%s)
  OUT=$(VERIF_NO_EVIDENCE=1 timeout ${TMO:-3000} ./vcheck $p --tier thorough 2>&1); RC=$?
  echo "thorough $p rc=$RC $(( $(date +%s) - START ))s $(echo "$OUT" | grep -E "^(VIOLATION|HARNESS)" | head -3 | tr '\n' ' ') $(echo "$OUT" | grep -E "^C[0-9]+ tier" | tail -1)"
done
