#!/bin/bash
# usage: tools_seedbase.sh <dir-id> <base-commit>  -- evaluates a stashed seed on the repo commit it still applies to:
# runs the seed's check on a worktree of <base> (alarms of the old base itself) and on <base> + patch.diff; prints the
# buckets that only the patched tree raises.
ID="$1"; BASE="$2"
DST=/verif/seeded/$ID
PROP=$(/venv/bin/python -c "import json;print(json.load(open('$DST/meta.json'))['breaks_property'])")
WT="$(mktemp -d /tmp/vseedb.XXXXXX)"
git -C /repo worktree add -q --detach "$WT" "$BASE" >/dev/null 2>&1
trap 'git -C /repo worktree remove --force "$WT" >/dev/null 2>&1; rm -rf "$WT"' EXIT
A=$(VERIF_REPO="$WT" VERIF_NO_EVIDENCE=1 ./vcheck "$PROP" 2>&1 | grep -E "^  bucket" | sort -u)
git -C "$WT" apply "$DST/patch.diff" || { echo "$ID: PATCH DOES NOT APPLY TO $BASE"; exit 2; }
B=$(VERIF_REPO="$WT" VERIF_NO_EVIDENCE=1 ./vcheck "$PROP" 2>&1 | grep -E "^  bucket" | sort -u)
echo "== $ID on $BASE ($PROP): buckets only with the patch:"
comm -13 <(echo "$A") <(echo "$B") | head -6
echo "   (buckets of the base itself: $(echo "$A" | grep -c bucket))"
