#!/venv/bin/python
"""prints the quick-tier size line for DESIGN 7.1 from evidence/*.json"""
import json, glob
out = []
for f in sorted(glob.glob('/verif/evidence/C*.json')):
    d = json.load(open(f))
    cov = d.get("coverage", {})
    ev = cov.get("evaluations") or cov.get("cases") or 0
    nt = cov.get("distinct_nontrivial") or 0
    def k(n): return f"{n/1000:.1f}k" if n >= 1000 else str(n)
    out.append(f"{d['property_id']} {k(ev)}/{k(nt)}/{round(d.get('wall_s', 0))}s")
print(", ".join(out))
