#!/bin/bash
# runs every quick check with several VERIF_SEED values; prints one line per (check, seed)
for s in ${SEEDS:-2 3 4}; do
  for p in C01 C02 C03 C04 C05 C06 C07 C08 C09 C10 C11 C12 C13 C14 C15 C16 C17 C18 C19 C20; do
    OUT=$(VERIF_SEED=$s VERIF_NO_EVIDENCE=1 ./vcheck $p 2>&1); RC=$?
    echo "seed=$s $p rc=$RC $(echo "$OUT" | grep -E "^(VIOLATION|HARNESS)" | head -3 | tr '\n' ' ') $(echo "$OUT" | tail -1 | grep -o 'wall=[0-9.]*s')"
  done
done
