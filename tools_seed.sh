#!/bin/bash
# usage: tools_seed.sh <ID> <check ids...>
# Imports a sub-agent's seeded change from /tmp/seed/<ID> into /verif/seeded/<ID>/, confirms the demonstration
# (passes on /repo HEAD, fails with the patch) in a scratch worktree, and runs the named checks against it.
ID="$1"; shift
SRC=${SEEDROOT:-/tmp/seed}/$ID
DST=/verif/seeded/$ID${SUFFIX:-}
mkdir -p "$DST"
[ -s "$DST/patch.diff" ] || ( cd "$SRC" && git diff -- src > "$DST/patch.diff" )
cp "$SRC"/demo_*.py "$DST/" 2>/dev/null
cp "$SRC/NOTES.md" "$DST/NOTES.md" 2>/dev/null; cp "$SRC"/aside*.py "$SRC"/aside/*.py "$SRC"/scratch_aside*.py "$DST/" 2>/dev/null
WT="$(mktemp -d /tmp/vseed.XXXXXX)"
git -C /repo worktree add -q --detach "$WT" HEAD >/dev/null 2>&1
trap 'git -C /repo worktree remove --force "$WT" >/dev/null 2>&1; rm -rf "$WT"' EXIT
DEMO=$(ls "$DST"/demo_*.py | head -1)
( cd "$WT" && PYTHONPATH="$WT/src" TZ=UTC timeout 600 /venv/bin/python "$DEMO" >/tmp/seed_demo_clean.log 2>&1 ); CLEAN=$?
git -C "$WT" apply "$DST/patch.diff" || { echo "PATCH DOES NOT APPLY TO HEAD"; exit 2; }
( cd "$WT" && PYTHONPATH="$WT/src" TZ=UTC timeout 600 /venv/bin/python "$DEMO" >/tmp/seed_demo_patched.log 2>&1 ); PATCHED=$?
echo "demo: clean exit=$CLEAN patched exit=$PATCHED"
tail -3 /tmp/seed_demo_patched.log
RES=""
for c in "$@"; do
  OUT=$(VERIF_REPO="$WT" VERIF_NO_EVIDENCE=1 ./vcheck "$c" --tier "${TIER:-quick}" 2>&1)
  RC=$?
  echo "== $c rc=$RC"; echo "$OUT" | grep -E "^(VIOLATION|KNOWN|HARNESS|  bucket|  detail|C[0-9]+ tier)" | head -8
  RES="$RES $c:$RC"
done
echo "RESULT $ID demo_clean=$CLEAN demo_patched=$PATCHED checks=$RES"
