"""Reference model of jump loops (C15), written from the property statement and the documented
jump semantics - it never calls engine code.

Supported workloads: AND-join DAGs whose stages have one task each, tasks being 'ok' or
'jump(to, j)' (j < 0 = always).  The model executes the DAG abstractly:
  * a stage runs when all its requisites are continuable (or it is the explicit target of a jump);
  * a jump request from source R to target T with R's own counter c and budget m:
      - unknown T            -> R TERMINAL, workflow TERMINAL;
      - c >= m               -> R TERMINAL, workflow TERMINAL (limit reached);
      - otherwise applied: counter of R and T becomes c+1;
          backward (T == R or R depends on T): T, R and every stage all of whose requisites are in
              the re-arm set are re-armed and run once more;
          forward: R ends SUCCEEDED, stages reachable only through R but not T or its descendants
              are SKIPPED and never run, T runs.
"""

from __future__ import annotations

from typing import Any

from vlib.spec import by_ref, descendants

CONT = {"SUCCEEDED", "FAILED_CONTINUE", "SKIPPED"}


def _rearm_closure(spec: dict[str, Any], target: str) -> set[str]:
    scope = {target}
    changed = True
    while changed:
        changed = False
        for s in spec["stages"]:
            if s["ref"] in scope or not s["req"]:
                continue
            if all(r in scope for r in s["req"]):
                scope.add(s["ref"])
                changed = True
    return scope


def loop_model(spec: dict[str, Any]) -> dict[str, Any]:
    m = by_ref(spec)
    order = [s["ref"] for s in spec["stages"]]
    budget = spec.get("max_jumps")
    budget = 10 if budget is None else budget
    status = {r: "NOT_STARTED" for r in order}
    jc = {r: 0 for r in order}
    execs = {r: 0 for r in order}
    bypass: set[str] = set()
    applied = 0
    rejected = 0
    halted: list[str] = []
    racy: set[str] = set()
    concurrent: set[str] = set()
    guard = 0
    while guard < 5000:
        guard += 1
        ready = [r for r in order if status[r] == "NOT_STARTED" and (r in bypass or all(status[u] in CONT for u in m[r]["req"]))]
        if halted:
            # after a halt nothing downstream of it runs; unrelated ready stages may or may not still run (race with the cancel)
            blocked = set().union(*[descendants(spec, h) for h in halted])
            ready = [r for r in ready if r not in blocked]
            racy |= set(ready)
        if not ready:
            break
        r = ready[0]
        bypass.discard(r)
        if m[r].get("enabled") is False:
            status[r] = "SKIPPED"
            continue
        execs[r] += 1
        t = m[r]["tasks"][0]
        if t.get("b") == "jump" and (t.get("j", 1) < 0 or jc[r] < t.get("j", 1)):
            tgt = t["to"]
            if tgt not in m:
                status[r] = "TERMINAL"
                halted.append(r)
                rejected += 1
                continue
            if jc[r] >= budget:
                status[r] = "TERMINAL"
                halted.append(r)
                rejected += 1
                continue
            applied += 1
            new = jc[r] + 1
            backward = tgt == r or r in descendants(spec, tgt)
            if backward:
                from vlib.spec import ancestors as _anc

                body = (descendants(spec, tgt) & _anc(spec, r)) | {r, tgt}
                for x in _rearm_closure(spec, tgt) | {r, tgt}:
                    if x not in body and x not in descendants(spec, r):
                        # a re-armed branch that runs beside the loop body: it may or may not have finished when the
                        # jump lands, so the number of times it runs is schedule dependent (1 .. applied + 1)
                        concurrent.add(x)
                    status[x] = "NOT_STARTED"
                jc[r] = new
                jc[tgt] = new
                bypass.add(tgt)
            else:
                status[r] = "SUCCEEDED"
                jc[r] = new
                jc[tgt] = new
                only_via_source = _rearm_closure(spec, r) - {r}
                chain = {tgt} | descendants(spec, tgt)
                for x in only_via_source - chain:
                    if status[x] == "NOT_STARTED":
                        status[x] = "SKIPPED"
                status[tgt] = "NOT_STARTED"
                bypass.add(tgt)
            continue
        status[r] = "SUCCEEDED"
    if halted:
        from vlib.spec import ancestors

        exact = set(halted)
        for h in halted:
            exact |= ancestors(spec, h)
        blocked = set().union(*[descendants(spec, h) for h in halted])
        racy = {r for r in order if r not in exact and r not in blocked} | (racy - exact)
    wf = "TERMINAL" if halted else ("SUCCEEDED" if all(status[r] in CONT for r in order) else "RUNNING")
    return {"workflow": wf, "stages": status, "execs": execs, "applied": applied, "rejected": rejected,
            "halted": halted, "racy": sorted(racy), "concurrent": sorted(concurrent), "diverged": guard >= 5000}
