"""Engine D: delivery-schedule driver (DESIGN.md 2.5).

One message at a time through the *real* ``poll_one`` / ``_handle_message`` / ``ack``:
the harness only decides which pending row "becomes due" next and whether the ack is lost.
"""

from __future__ import annotations

import json
from datetime import timedelta
from typing import Any, Callable

from vlib import tasks
from vlib.spec import build_workflow
from vlib.world import World

WAIT_RETRY = 5  # retry_count above which a self re-queuing message counts as a "wait" message


class Schedule:
    """A list of small integers: decision i picks pending[(v >> 1) % n]; bit 0 = lose the ack.
    Exhausted list = FIFO, always ack (so truncation is a natural shrink)."""

    def __init__(self, decisions: list[int] | None = None, max_redeliver: int = 2) -> None:
        self.d = list(decisions or [])
        self.i = 0
        self.max_redeliver = max_redeliver
        self.lost: dict[int, int] = {}
        self.out_of_order = 0
        self.redelivered = 0

    def choose(self, rows: list[dict[str, Any]]) -> tuple[dict[str, Any], bool]:
        if self.i < len(self.d):
            v = self.d[self.i]
        else:
            v = 0
        self.i += 1
        idx = (v >> 1) % len(rows)
        row = rows[idx]
        lose = bool(v & 1) and self.lost.get(row["id"], 0) < self.max_redeliver
        if idx != 0:
            self.out_of_order += 1
        if lose:
            self.lost[row["id"]] = self.lost.get(row["id"], 0) + 1
        return row, lose


def _is_wait(row: dict[str, Any]) -> bool:
    try:
        return (json.loads(row["payload"]).get("retry_count") or 0) > WAIT_RETRY
    except Exception:  # noqa: BLE001
        return False


class Run:
    """One workflow run under a schedule with optional injections.

    injections: {step_index: [callable(run) ...]} executed before that delivery step.
    """

    def __init__(self, spec: dict[str, Any], schedule: Schedule | None = None, events: bool = False,
                 world: World | None = None, start: bool = True, max_steps: int = 3000, **world_kw: Any) -> None:
        self.spec = spec
        self.schedule = schedule or Schedule()
        self.max_steps = max_steps
        self.steps = 0
        self.handler_errors: list[str] = []
        self.deliveries: list[tuple[int, str, int, bool]] = []  # (step, type, row id, acked)
        self.injections: dict[int, list[Callable[["Run"], None]]] = {}
        self.before_step: Callable[["Run"], None] | None = None
        self.after_step: Callable[["Run", Any], None] | None = None
        self.step_bound_hit = False
        self.phase = "idle"
        self.inflight: dict[str, Any] | None = None
        self.unacked: dict[int, Any] = {}
        if world is None:
            tasks.reset_ledger()
            self.w = World(events=events, **world_kw)
            self.wf = build_workflow(spec)
            self.w.set_ctx(0, "submit")
            self.w.store.store(self.wf)
            if start:
                self.w.orch.start(self.wf)
        else:
            self.w = world
            self.wf = None
        self.wf_id = "W1"

    # ---- one delivery ----------------------------------------------------------
    def eligible(self) -> list[dict[str, Any]]:
        rows = self.w.pending()
        normal = [r for r in rows if not _is_wait(r)]
        return normal if normal else rows  # fairness rule (DESIGN 2.5)

    def deliver(self, row: dict[str, Any], lose_ack: bool = False) -> Any:
        w = self.w
        self.steps += 1
        self.phase = "handle"
        self.inflight = row
        w.set_ctx(self.steps, row["type"])
        w.make_only_due(row["id"])
        m = w.queue.poll_one()
        if m is None:
            # attempts exhausted (or corrupt payload moved to the DLQ by poll_one): run the processor's sweep
            w.processor._check_dlq()
            self.deliveries.append((self.steps, row["type"], row["id"], False))
            return None
        try:
            w.processor._handle_message(m)
        except Exception as e:  # noqa: BLE001 - what the processor does on handler failure
            self.handler_errors.append(f"{row['type']}: {type(e).__name__}: {str(e)[:200]}")
            m.set_error_context(e)
            w.queue.reschedule(m, w.processor.config.retry_delay)
            self.deliveries.append((self.steps, row["type"], row["id"], False))
            return m
        if lose_ack:
            self.unacked[row["id"]] = m
            self.schedule.redelivered += 1
        else:
            self.phase = "ack"
            w.queue.ack(m)
        self.phase = "idle"
        self.deliveries.append((self.steps, row["type"], row["id"], not lose_ack))
        return m

    def step(self) -> bool:
        idx = self.steps  # injections are keyed by the number of deliveries done so far
        for inj in self.injections.pop(idx, []):
            inj(self)
        rows = self.eligible()
        if not rows:
            return False
        if self.steps >= self.max_steps:
            self.step_bound_hit = True
            return False
        if self.before_step is not None:
            self.before_step(self)
            rows = self.eligible()
            if not rows:
                return False
        row, lose = self.schedule.choose(rows)
        m = self.deliver(row, lose)
        if self.after_step is not None:
            self.after_step(self, m)
        return True

    def drain(self) -> "Run":
        while self.step():
            pass
        # late injections (positions beyond the end of the run) are applied once, then drained again
        while self.injections and not self.step_bound_hit:
            k = min(self.injections)
            for inj in self.injections.pop(k):
                inj(self)
            while self.step():
                pass
        return self

    # ---- outcome ---------------------------------------------------------------
    def workflow(self):
        return self.w.store.retrieve(self.wf_id)

    def outcome(self) -> dict[str, Any]:
        """Outcome signature (DESIGN 2.4): statuses, execution counts and visible data."""
        wf = self.workflow()
        stages = {}
        tasks_ = {}
        for s in wf.stages:
            label = s.name
            stages[label] = s.status.name
            for t in s.tasks:
                tasks_[f"{label}.{t.name}"] = t.status.name
        led = tasks.ledger_snapshot()
        counts: dict[str, int] = {}
        seen: dict[str, list[Any]] = {}
        for e in led:
            k = f"{e['stage']}.t{e['task']}"
            counts[k] = counts.get(k, 0) + 1
            data = {kk: vv for kk, vv in e["seen"].items() if kk.startswith("k_")}
            seen.setdefault(k, []).append(data)
        return {"workflow": wf.status.name, "stages": stages, "tasks": tasks_, "counts": counts, "seen": seen,
                "queue": self.w.queue_size(), "dlq": self.w.dlq_size()}


# ---- injections -----------------------------------------------------------------

def inj_recover(times: int = 1) -> Callable[[Run], None]:
    def f(run: Run) -> None:
        run.w.set_ctx(run.steps, "Recovery")
        for _ in range(times):
            res = run.w.processor.run_recovery()
            run.__dict__.setdefault("recovery_results", []).extend(res)
    return f


def inj_cancel(user: str = "op", reason: str = "test") -> Callable[[Run], None]:
    def f(run: Run) -> None:
        run.w.set_ctx(run.steps, "inject-cancel")
        wf = run.w.store.retrieve(run.wf_id)
        run.w.orch.cancel(wf, user, reason)
    return f


def inj_restart(stage_ref: str) -> Callable[[Run], None]:
    """Operator restart of a stage (Orchestrator.restart -> RestartStage message)."""
    def f(run: Run) -> None:
        run.w.set_ctx(run.steps, "inject-restart")
        wf = run.w.store.retrieve(run.wf_id)
        run.w.orch.restart(wf, f"{run.wf_id}-{stage_ref}")
    return f


def inj_signal(stage_ref: str, name: str, data: dict[str, Any] | None, persistent: bool) -> Callable[[Run], None]:
    def f(run: Run) -> None:
        from stabilize.queue.messages import SignalStage

        run.w.set_ctx(run.steps, "inject-signal")
        run.w.queue.push(SignalStage(execution_type="PIPELINE", execution_id=run.wf_id, stage_id=f"{run.wf_id}-{stage_ref}",
                                     signal_name=name, signal_data=data or {}, persistent=persistent))
    return f


def inj_start_stage(stage_ref: str) -> Callable[[Run], None]:
    def f(run: Run) -> None:
        from stabilize.queue.messages import StartStage

        run.w.set_ctx(run.steps, "inject-startstage")
        run.w.queue.push(StartStage(execution_type="PIPELINE", execution_id=run.wf_id, stage_id=f"{run.wf_id}-{stage_ref}"))
    return f


def inj_pause(user: str = "op") -> Callable[[Run], None]:
    """Operator pause of a RUNNING workflow (the store call has no status guard of its own; pausing anything
    but a running workflow is treated as outside the operator's contract and skipped)."""
    def f(run: Run) -> None:
        if run.w.scalar("SELECT status FROM pipeline_executions WHERE id = ?", (run.wf_id,)) != "RUNNING":
            run.__dict__["pause_skipped"] = run.__dict__.get("pause_skipped", 0) + 1
            return
        run.w.set_ctx(run.steps, "inject-pause")
        run.w.store.pause(run.wf_id, user)
    return f


def inj_unpause() -> Callable[[Run], None]:
    def f(run: Run) -> None:
        run.w.set_ctx(run.steps, "inject-unpause")
        run.w.orch.unpause(run.w.store.retrieve(run.wf_id))
    return f


def fifo_reference(spec: dict[str, Any], events: bool = False, **kw: Any) -> Run:
    return Run(spec, Schedule(), events=events, **kw).drain()
