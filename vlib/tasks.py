"""Scripted task + stage builders + execution ledger (DESIGN.md 2.2 / 2.3).

The behaviour of every task is a deterministic function of *durable* state (the stage
context handed to ``Task.execute``), so a re-execution after a crash behaves the same.
The ledger lives in harness memory: it models side effects outside the database.
"""

from __future__ import annotations

import copy

import threading
from typing import Any

LEDGER: list[dict[str, Any]] = []
_LOCK = threading.Lock()
CURRENT: dict[str, Any] = {"step": 0, "tag": None}
MAX_TASKS = 4


def reset_ledger() -> None:
    with _LOCK:
        LEDGER.clear()
    CURRENT["step"] = 0


def ledger_snapshot() -> list[dict[str, Any]]:
    with _LOCK:
        return [dict(e) for e in LEDGER]


def ledger_truncate(n: int) -> None:
    with _LOCK:
        del LEDGER[n:]


def _seen(ctx: dict[str, Any]) -> dict[str, Any]:
    out = {}
    for k, v in ctx.items():
        if k.startswith("k_") or k in ("_signal_name", "_signal_data", "_jump_count") or k.startswith("_prog") or k.startswith("_poll"):
            out[k] = copy.deepcopy(v) if isinstance(v, (list, dict)) else v
    return out


def _progress(ctx: dict[str, Any], key: str, shape: str) -> tuple[int, Any]:
    """(attempts recorded so far, value to attach for the next attempt).  Shapes other than 'int' keep the progress in a
    container, the way a task accumulates finished items; '-inplace' mutates the object it took out of stage.context."""
    if shape == "int":
        n = ctx.get(key, 0)
        return n, n + 1
    if shape == "list-fresh":
        old = ctx.get(key) or []
        return len(old), list(old) + [len(old)]
    if shape == "list-inplace":
        lst = ctx.get(key)
        if lst is None:
            lst = []
        n = len(lst)
        lst.append(n)
        return n, lst
    if shape == "dict-inplace":
        d = ctx.get(key)
        if d is None:
            d = {}
        n = len(d)
        d[f"i{n}"] = n
        return n, d
    raise ValueError(shape)


def _emit(spec_task: dict[str, Any], label: str, ctx: dict[str, Any]) -> dict[str, Any]:
    out: dict[str, Any] = {}
    jc = ctx.get("_jump_count", 0)
    for e in spec_task.get("emit", []):
        key, mode = e["key"], e.get("mode", "const")
        if mode == "const":
            val: Any = f"{label}:{key}"
        elif mode == "iter":
            val = f"{label}:{key}@{jc}"
        elif mode == "echo":
            val = f"{label}:{key}<{ctx.get(e['src'])}>"
        elif mode == "int":
            val = e["value"]
        else:
            val = f"{label}:{key}"
        out[key] = [val] if e.get("list") else val
    return out


def make_task_class(index: int):
    from stabilize import Task, TaskResult
    from stabilize.errors import TransientError

    from stabilize.tasks.interface import SkippableTask

    class VTask(SkippableTask):
        position = index

        def is_enabled(self, stage):  # noqa: ANN001
            script = (stage.context.get("_v") or {}).get("tasks") or []
            spec = script[index] if index < len(script) else {"b": "ok"}
            return spec.get("b", "ok") != "disabled"  # a SkippableTask that is switched off: the engine skips it without running it

        def do_execute(self, stage):  # noqa: ANN001
            ctx = stage.context
            script = (ctx.get("_v") or {}).get("tasks") or []
            spec = script[index] if index < len(script) else {"b": "ok"}
            label = stage.name
            b = spec.get("b", "ok")
            entry = {"stage": label, "task": index, "step": CURRENT["step"], "seen": _seen(ctx), "b": b,
                     "tag": CURRENT.get("tag")}
            with _LOCK:
                entry["n"] = len(LEDGER)
                LEDGER.append(entry)
            if b == "ok":
                return TaskResult.success(outputs=_emit(spec, label, ctx))
            if b == "fail":
                return TaskResult.terminal("scripted failure")
            if b == "poll":
                key = f"_poll{index}"
                n, nxt = _progress(ctx, key, spec.get("prog", "int"))
                if n < spec.get("k", 1):
                    return TaskResult.running(context={key: nxt})
                return TaskResult.success(outputs=_emit(spec, label, ctx))
            if b == "transient":
                key = f"_prog{index}"
                k = spec.get("k", 1)
                if spec.get("upd", True):
                    n, nxt = _progress(ctx, key, spec.get("prog", "int"))
                else:
                    n, nxt = ctx.get(key, 0), None
                if k < 0 or n < k:
                    if spec.get("upd", True):
                        style = spec.get("raise", "bare")
                        if style == "from":
                            # the usual way a task reports a transient condition: wrapping the low-level error
                            try:
                                raise ConnectionError("low-level failure")
                            except ConnectionError as low:
                                raise TransientError("scripted transient failure", context_update={key: nxt}) from low
                        if style in ("from-transient", "from-stale"):
                            # a retrying helper's own TransientError re-raised with the task's progress attached; the inner
                            # error carries no progress of its own ("from-transient") or the progress of an earlier
                            # attempt ("from-stale"): what the task attached to the error it raised is what counts
                            try:
                                raise TransientError("inner transient failure", **({"context_update": {key: ctx.get(key)}} if style == "from-stale" and ctx.get(key) is not None else {}))
                            except TransientError as low:
                                raise TransientError("scripted transient failure", context_update={key: nxt}) from low
                        if style == "cause":
                            raise TransientError("scripted transient failure", cause=TimeoutError("low-level timeout"),
                                                 context_update={key: nxt})
                        raise TransientError("scripted transient failure", context_update={key: nxt})
                    # without a context update the task cannot count; it fails until the harness-visible
                    # attempt counter (ledger) reaches k
                    with _LOCK:
                        done = sum(1 for e in LEDGER if e["stage"] == label and e["task"] == index) - 1
                    if k < 0 or done < k:
                        raise TransientError("scripted transient failure (no progress)")
                return TaskResult.success(outputs=_emit(spec, label, ctx))
            if b == "suspend":
                k = spec.get("k", 1)  # how many times the task suspends before it succeeds
                if k > 1:
                    # the engine never clears _signal_name, so further suspensions are counted in harness memory
                    with _LOCK:
                        done = sum(1 for e in LEDGER if e["stage"] == label and e["task"] == index) - 1
                    if done >= k and "_signal_name" in ctx:
                        return TaskResult.success(outputs=_emit(spec, label, ctx))
                    return TaskResult.suspend()
                if "_signal_name" in ctx:
                    out = _emit(spec, label, ctx)
                    return TaskResult.success(outputs=out)
                return TaskResult.suspend()
            if b == "jump":
                j = spec.get("j", 1)
                after = spec.get("after", 0)  # jump only from the (after+1)-th execution of this task on (e.g. after an operator restart)
                if after:
                    with _LOCK:
                        done = sum(1 for e in LEDGER if e["stage"] == label and e["task"] == index) - 1
                else:
                    done = 0
                if done >= after and (j < 0 or ctx.get("_jump_count", 0) < j):
                    jctx = spec.get("jctx")  # context handed to the target with the jump: {key: value prefix}
                    if jctx:
                        return TaskResult.jump_to(spec["to"], context={k: f"{v}@{ctx.get('_jump_count', 0)}" for k, v in jctx.items()})
                    return TaskResult.jump_to(spec["to"])
                return TaskResult.success(outputs=_emit(spec, label, ctx))
            if b == "fail_continue":
                return TaskResult.failed_continue("scripted soft failure")
            return TaskResult.success()

    VTask.__name__ = f"VTask{index}"
    return VTask


_TASK_CLASSES = None


def make_registry():
    from stabilize import TaskRegistry

    global _TASK_CLASSES
    if _TASK_CLASSES is None:
        _TASK_CLASSES = [make_task_class(i) for i in range(MAX_TASKS)]
    reg = TaskRegistry()
    for i, cls in enumerate(_TASK_CLASSES):
        reg.register(f"v{i}", cls)
    return reg


def make_task_models(script: list[dict[str, Any]], prefix: str):
    """TaskExecution rows for a task script. Ids are explicit and ordered (the store reads tasks back
    ORDER BY id; ULIDs created within one millisecond carry no order)."""
    from stabilize.models.task import TaskExecution

    out = []
    for i, _t in enumerate(script):
        out.append(TaskExecution(id=f"{prefix}-t{i}", name=f"t{i}", implementing_class=f"v{i}",
                                 stage_start=(i == 0), stage_end=(i == len(script) - 1)))
    return out


def register_builders() -> None:
    """Stage types: 'v' (no builder: predefined tasks only), 'vsyn' (before/after children),
    'vb' (tasks built by the builder at plan time), 'vchild' (the synthetic children)."""
    from stabilize.models.stage import StageExecution, SyntheticStageOwner
    from stabilize.stages.builder import StageDefinitionBuilder, get_default_factory

    factory = get_default_factory()
    if factory.has("vsyn"):
        return

    def _children(stage, graph, owner, n, kind):  # noqa: ANN001
        v = stage.context.get("_v") or {}
        syn = v.get("syn") or {}
        scripts = syn.get(kind)
        if scripts is None:
            scripts = ["ok"] * n  # legacy form: n sequential succeeding children
            parallel = False
        else:
            parallel = bool(syn.get("parallel"))
        for i, b in enumerate(scripts):
            label = f"{stage.name}/{kind}{i}"
            script = [{"b": "fail" if b == "failcof" else b}]
            cctx: dict[str, Any] = {"_v": {"tasks": script}}
            if b == "failcof":
                cctx["continuePipelineOnFailure"] = True  # the child itself is marked continue-on-failure
            child = StageExecution.create_synthetic(
                type="vchild", name=label, parent=stage, owner=owner,
                context=cctx,
            )
            # ids/ref_ids stay the engine's own random ULIDs (what real builders produce); the ledger
            # identifies children by their name
            child.tasks = make_task_models(script, child.id)
            graph.append(child) if (i and not parallel) else graph.add(child)

    class VSynBuilder(StageDefinitionBuilder):
        @property
        def type(self) -> str:
            return "vsyn"

        def build_tasks(self, stage):  # noqa: ANN001
            script = (stage.context.get("_v") or {}).get("tasks") or []
            return make_task_models(script, stage.id)

        def before_stages(self, stage, graph):  # noqa: ANN001
            _children(stage, graph, SyntheticStageOwner.STAGE_BEFORE, (stage.context.get("_v") or {}).get("before", 0), "before")

        def after_stages(self, stage, graph):  # noqa: ANN001
            _children(stage, graph, SyntheticStageOwner.STAGE_AFTER, (stage.context.get("_v") or {}).get("after", 0), "after")

        def on_failure_stages(self, stage, graph):  # noqa: ANN001
            _children(stage, graph, SyntheticStageOwner.STAGE_AFTER, 0, "onfail")

    class VBuiltBuilder(StageDefinitionBuilder):
        @property
        def type(self) -> str:
            return "vb"

        def build_tasks(self, stage):  # noqa: ANN001
            script = (stage.context.get("_v") or {}).get("tasks") or []
            return make_task_models(script, stage.id)

    factory.register(VSynBuilder())
    factory.register(VBuiltBuilder())
