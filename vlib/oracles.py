"""Shared oracles over a finished Run (DESIGN.md 2.4): spec classification, expected
execution counts, outcome comparison, quiescence clauses, transition-table audit,
stuck-state diagnosis (the root-cause part of violation bucket keys)."""

from __future__ import annotations

import json
from typing import Any

from vlib.spec import ancestors, by_ref, descendants

COMPLETE = {"SUCCEEDED", "FAILED_CONTINUE", "TERMINAL", "CANCELED", "STOPPED", "SKIPPED"}
CONTINUABLE = {"SUCCEEDED", "FAILED_CONTINUE", "SKIPPED"}
HALT = {"TERMINAL", "CANCELED", "STOPPED"}


# --------------------------------------------------------------------------- spec classification

def jump_halts(spec: dict[str, Any], t: dict[str, Any]) -> bool:
    """A jump request ends the source stage TERMINAL when the target does not exist or the budget is exceeded."""
    if t.get("b") != "jump":
        return False
    budget = spec.get("max_jumps")
    budget = 10 if budget is None else budget
    refs = {s["ref"] for s in spec["stages"]}
    return t["to"] not in refs or t.get("j", 1) < 0 or t.get("j", 1) > budget


def halting_stages(spec: dict[str, Any]) -> list[str]:
    out = []
    for s in spec["stages"]:
        if s.get("enabled") is False:
            continue
        if any(jump_halts(spec, t) for t in s["tasks"]) or (not s.get("cof") and not s.get("stop") and any(t.get("b") == "fail" for t in s["tasks"])):
            out.append(s["ref"])  # a STOPPED failure (failPipeline false) halts only its own branch: the workflow is not torn down
    return out


def has_jump(spec: dict[str, Any]) -> bool:
    return any(t.get("b") == "jump" for s in spec["stages"] for t in s["tasks"])


def classify(spec: dict[str, Any]) -> str:
    """'confluent' | 'racy-fail' | 'early-join' | 'choice'  (DESIGN 2.4)."""
    if any(s.get("choice") for s in spec["stages"]):
        return "choice"
    if any(s.get("join") in ("DISC", "NOFM") and len(s["req"]) > 1 for s in spec["stages"]):
        return "early-join"
    refs = [s["ref"] for s in spec["stages"]]
    for h in halting_stages(spec):
        related = ancestors(spec, h) | descendants(spec, h) | {h}
        if any(r not in related for r in refs):
            return "racy-fail"
    return "confluent"


def natural_status(s: dict[str, Any], spec: dict[str, Any] | None = None) -> str:
    if s.get("enabled") is False:
        return "SKIPPED"
    if spec is not None and any(jump_halts(spec, t) for t in s["tasks"]):
        return "TERMINAL"
    if any(t.get("b") == "fail" for t in s["tasks"]):
        return "FAILED_CONTINUE" if s.get("cof") else ("STOPPED" if s.get("stop") else "TERMINAL")
    return "SUCCEEDED"


def max_exec(t: dict[str, Any]) -> int | None:
    """Executions one activation of a task may take according to its script (None = unbounded by script)."""
    b = t.get("b", "ok")
    if b == "disabled":
        return 0
    if b in ("ok", "fail", "fail_continue"):
        return 1
    if b in ("poll", "transient"):
        k = t.get("k", 1)
        return None if k < 0 else k + 1
    if b == "suspend":
        return 2
    if b == "jump":
        return 1
    return 1


# --------------------------------------------------------------------------- outcome comparison

def _diff_keys(a: dict[str, Any], b: dict[str, Any]) -> list[str]:
    return sorted(k for k in set(a) | set(b) if a.get(k) != b.get(k))


def compare_exact(ref: dict[str, Any], got: dict[str, Any], data: bool = True) -> list[tuple[str, str]]:
    """Equality of outcome signatures. Returns [(clause, detail)]."""
    out: list[tuple[str, str]] = []
    if ref["workflow"] != got["workflow"]:
        out.append(("workflow-status", f"workflow {got['workflow']} != reference {ref['workflow']}"))
    d = _diff_keys(ref["stages"], got["stages"])
    if d:
        out.append(("stage-status", "; ".join(f"{k}: {got['stages'].get(k)} != ref {ref['stages'].get(k)}" for k in d[:4])))
    d = _diff_keys(ref["counts"], got["counts"])
    if d:
        more = [k for k in d if got["counts"].get(k, 0) > ref["counts"].get(k, 0)]
        less = [k for k in d if got["counts"].get(k, 0) < ref["counts"].get(k, 0)]
        if more:
            out.append(("extra-execution", "; ".join(f"{k}: {got['counts'].get(k, 0)}x vs ref {ref['counts'].get(k, 0)}x" for k in more[:4])))
        if less:
            out.append(("missing-execution", "; ".join(f"{k}: {got['counts'].get(k, 0)}x vs ref {ref['counts'].get(k, 0)}x" for k in less[:4])))
    if data and not d:
        dd = [k for k in ref["seen"] if sorted(map(_canon, ref["seen"][k])) != sorted(map(_canon, got["seen"].get(k, [])))]
        if dd:
            k = dd[0]
            out.append(("visible-data", f"{k} saw {got['seen'].get(k)} vs reference {ref['seen'][k]}"))
    return out


def _canon(x: Any) -> str:
    return json.dumps(x, sort_keys=True, default=str)


def compare_racy_fail(spec: dict[str, Any], ref: dict[str, Any], got: dict[str, Any]) -> list[tuple[str, str]]:
    """Validity predicate for a halting failure next to unfinished siblings (DESIGN 2.4)."""
    out: list[tuple[str, str]] = []
    m = by_ref(spec)
    halts = halting_stages(spec)
    if got["workflow"] != ref["workflow"]:
        out.append(("workflow-status", f"workflow {got['workflow']} != reference {ref['workflow']}"))
    exact: set[str] = set()
    # a failing stage and its ancestors are exact when the failing stage is reached in both runs
    for h in halts:
        if ref["stages"].get(h) == "TERMINAL" and got["stages"].get(h) == "TERMINAL":
            exact |= ancestors(spec, h) | {h}
    blocked: set[str] = set()
    for h in halts:
        if got["stages"].get(h) in HALT or got["stages"].get(h) == "NOT_STARTED":
            pass
        blocked |= descendants(spec, h)
    for ref_id, s in m.items():
        st_ = got["stages"].get(ref_id)
        if ref_id in exact:
            if st_ != ref["stages"].get(ref_id):
                out.append(("stage-status", f"{ref_id}: {st_} != reference {ref['stages'].get(ref_id)} (ancestor of / the failing stage)"))
            continue
        allowed = {natural_status(s, spec), "CANCELED", "NOT_STARTED"}
        if st_ not in allowed:
            out.append(("stage-status", f"{ref_id}: {st_} not in {sorted(allowed)}"))
    # nothing downstream of a halted stage (through AND joins) ever executes
    for ref_id in blocked:
        s = m[ref_id]
        if s.get("join", "AND") == "AND" and any(got["stages"].get(u) in HALT for u in s["req"]):
            if any(k.startswith(ref_id + ".t") for k in got["counts"]):
                out.append(("downstream-of-halt-ran", f"{ref_id} executed although a required upstream halted"))
    for ref_id, s in ({} if has_jump(spec) else m).items():  # loop iterations are judged by the loop model (C15)
        for i, t in enumerate(s["tasks"]):
            mx = max_exec(t)
            n = got["counts"].get(f"{ref_id}.t{i}", 0)
            if mx is not None and n > mx:
                out.append(("extra-execution", f"{ref_id}.t{i}: {n}x, script allows {mx}x"))
    return out


def compare_outcome(spec: dict[str, Any], ref: dict[str, Any], got: dict[str, Any]) -> list[tuple[str, str]]:
    kind = classify(spec)
    if kind == "confluent" and has_jump(spec):
        # stages re-armed by a backward jump while they run beside the loop body (a side branch hanging off the jump target):
        # how often they execute depends on whether they had started when the jump landed - 1 .. applied+1, not one number
        from vlib.loopmodel import loop_model

        model = loop_model(spec)
        conc = set(model.get("concurrent", ()))
        if conc and not model["diverged"]:
            out = []
            for clause, detail in compare_exact(ref, got, data=False):
                if clause in ("extra-execution", "missing-execution"):
                    continue
                out.append((clause, detail))
            for k in sorted(set(ref["counts"]) | set(got["counts"])):
                stage_ref = k.split(".")[0]
                r, g = ref["counts"].get(k, 0), got["counts"].get(k, 0)
                if stage_ref in conc:
                    if not (1 <= g <= model["applied"] + 1):
                        out.append(("extra-execution" if g > r else "missing-execution", f"{k}: {g}x, a stage re-armed beside the loop may run 1..{model['applied'] + 1}x"))
                elif g != r:
                    out.append(("extra-execution" if g > r else "missing-execution", f"{k}: {g}x vs ref {r}x"))
            return out
    if kind == "confluent":
        return compare_exact(ref, got, data=True)
    if kind == "racy-fail":
        return compare_racy_fail(spec, ref, got)
    if kind == "early-join":
        # statuses and counts exact; the data an early-firing join (and its descendants) saw may be any valid subset
        return compare_exact(ref, got, data=False)
    if kind == "choice":
        out = []
        groups: dict[str, list[str]] = {}
        for s in spec["stages"]:
            if s.get("choice"):
                groups.setdefault(s["choice"], []).append(s["ref"])
        if got["workflow"] != ref["workflow"]:
            out.append(("workflow-status", f"workflow {got['workflow']} != reference {ref['workflow']}"))
        in_group = {r for g in groups.values() for r in g}
        for k in _diff_keys({a: b for a, b in ref["stages"].items() if a not in in_group},
                            {a: b for a, b in got["stages"].items() if a not in in_group}):
            out.append(("stage-status", f"{k}: {got['stages'].get(k)} != ref {ref['stages'].get(k)}"))
        for g, refs in groups.items():
            a = sorted(ref["stages"].get(r) for r in refs)
            b = sorted(got["stages"].get(r) for r in refs)
            if a != b:
                out.append(("choice-group", f"group {g}: statuses {b} != reference multiset {a}"))
        return out
    return []


# --------------------------------------------------------------------------- stuck-state diagnosis

def diagnose_stuck(run) -> str:  # noqa: ANN001
    """Name the shape of a non-final quiescent state (root-cause part of the bucket key)."""
    wf = run.workflow()
    if wf.status.name in COMPLETE:
        return "final"
    shapes = []
    for s in wf.stages:
        ts = [t.status.name for t in s.tasks]
        if s.status.name == "RUNNING" and "REDIRECT" in ts:
            shapes.append("running-stage-with-REDIRECT-task")
        elif s.status.name == "RUNNING" and s.tasks and all(t == "NOT_STARTED" for t in ts):
            kids = [c.status.name for c in wf.stages if c.parent_stage_id == s.id]
            shapes.append("running-stage-tasks-not-started" + ("-children-" + "+".join(sorted(set(kids))) if kids else ""))
        elif s.status.name == "RUNNING":
            shapes.append("running-stage-tasks-" + "+".join(sorted(set(ts))))
        elif s.status.name == "SUSPENDED":
            shapes.append("suspended-stage")
    if not shapes:
        sts = {s.status.name for s in wf.stages if s.parent_stage_id is None}
        shapes.append("no-active-stage:" + ("with-halted-stage" if sts & HALT else
                                            "with-not-started-stage" if "NOT_STARTED" in sts else "all-finished"))
    return "|".join(sorted(set(shapes)))


def explicitly_waiting(run) -> bool:  # noqa: ANN001
    wf = run.workflow()
    if wf.status.name in ("PAUSED", "BUFFERED"):
        return True
    return any(s.status.name in ("SUSPENDED", "PAUSED") for s in wf.stages)


# --------------------------------------------------------------------------- transition table (C06)

def check_transitions(audit: list[tuple[Any, ...]]) -> list[tuple[str, str]]:
    from stabilize.models.status import VALID_TRANSITIONS, WorkflowStatus

    out = []
    for seq, step, writer, kind, ident, old, new in audit:
        if old is None or old == new:
            continue
        o, n = WorkflowStatus[old], WorkflowStatus[new]
        if n in VALID_TRANSITIONS.get(o, frozenset()):
            continue
        if writer in ("JumpToStage", "RestartStage") and new == "NOT_STARTED":
            continue  # explicit re-arm
        if writer == "RestartStage" and kind == "workflow" and new == "RUNNING" and o.is_complete:
            continue
        out.append((f"illegal:{kind}:{old}->{new}@{writer}", f"{kind} {ident}: {old} -> {new} written while handling {writer} (step {step})"))
    return out


def stage_starts(audit: list[tuple[Any, ...]]) -> dict[str, tuple[int, int]]:
    """Per stage id: (#NOT_STARTED->RUNNING, #re-arms to NOT_STARTED by jump/restart)."""
    starts: dict[str, int] = {}
    rearms: dict[str, int] = {}
    for seq, step, writer, kind, ident, old, new in audit:
        if kind != "stage":
            continue
        if old == "NOT_STARTED" and new == "RUNNING":
            starts[ident] = starts.get(ident, 0) + 1
        if new == "NOT_STARTED" and old is not None and writer in ("JumpToStage", "RestartStage"):
            rearms[ident] = rearms.get(ident, 0) + 1
    return {k: (starts.get(k, 0), rearms.get(k, 0)) for k in set(starts) | set(rearms)}
