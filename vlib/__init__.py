"""Verification harness library for rodmena-limited/stabilize (property-based testing / fuzzing)."""
