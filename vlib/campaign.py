"""Campaign bookkeeping: case counting, violation buckets, known findings, evidence.

Oracles *record* violations instead of raising so that one shallow defect does not end
the search (DESIGN.md section 1, "collect, bucket, then shrink").  A Campaign object is
picklable-by-parts: workers return ``export()`` dicts which the parent ``merge()``s.
"""

from __future__ import annotations

import hashlib
import json
import os
import re
import time
from typing import Any

HOME = os.environ.get("VERIF_HOME", os.path.dirname(os.path.dirname(os.path.abspath(__file__))))


def canon(obj: Any) -> str:
    return json.dumps(obj, sort_keys=True, default=str, separators=(",", ":"))


def chash(obj: Any) -> str:
    return hashlib.sha1(canon(obj).encode()).hexdigest()[:16]


def case_size(case: Any) -> int:
    return len(canon(case))


class Campaign:
    def __init__(self, prop: str, tier: str, seed: int, level: str) -> None:
        self.prop = prop
        self.tier = tier
        self.seed = seed
        self.level = level
        self.t0 = time.time()
        self.evaluations = 0
        self.nontrivial: set[str] = set()
        self.classes: dict[str, int] = {}
        self.samples: list[Any] = []
        self.max_samples = 4
        self.buckets: dict[str, dict[str, Any]] = {}
        self.extra: dict[str, Any] = {}
        self.assumptions: list[str] = []
        self.rule = ""
        self.exhaustive_parts: list[str] = []
        self.harness_errors: list[str] = []

    # ---- counting ---------------------------------------------------------
    def case(self, key: Any, nontrivial: bool, classes: list[str] | tuple[str, ...] = (), sample: Any = None,
             n: int = 1) -> None:
        self.evaluations += n
        if nontrivial:
            self.nontrivial.add(key if isinstance(key, str) and len(key) <= 20 else chash(key))
        for c in classes:
            self.classes[c] = self.classes.get(c, 0) + 1
        if sample is not None and len(self.samples) < self.max_samples:
            self.samples.append(sample)

    def count(self, cls: str, n: int = 1) -> None:
        self.classes[cls] = self.classes.get(cls, 0) + n

    # ---- violations -------------------------------------------------------
    def violation(self, bucket: str, case: Any, detail: str, sig: dict[str, Any] | None = None) -> None:
        """Record a violation under a root-cause bucket; keep the smallest witness."""
        b = self.buckets.get(bucket)
        size = case_size(case)
        if b is None:
            self.buckets[bucket] = {"count": 1, "case": case, "detail": detail, "size": size, "sig": sig or {}}
        else:
            b["count"] += 1
            if size < b["size"]:
                b.update(case=case, detail=detail, size=size, sig=sig or {})

    def harness_error(self, msg: str) -> None:
        self.harness_errors.append(msg)

    # ---- worker <-> parent ------------------------------------------------
    def export(self) -> dict[str, Any]:
        return {
            "evaluations": self.evaluations,
            "nontrivial": list(self.nontrivial),
            "classes": self.classes,
            "samples": self.samples,
            "buckets": self.buckets,
            "extra": self.extra,
            "harness_errors": self.harness_errors,
            "exhaustive_parts": self.exhaustive_parts,
        }

    def merge(self, other: dict[str, Any]) -> None:
        self.evaluations += other["evaluations"]
        self.nontrivial.update(other["nontrivial"])
        for k, v in other["classes"].items():
            self.classes[k] = self.classes.get(k, 0) + v
        for s in other["samples"]:
            if len(self.samples) < self.max_samples:
                self.samples.append(s)
        for k, b in other["buckets"].items():
            mine = self.buckets.get(k)
            if mine is None:
                self.buckets[k] = dict(b)
            else:
                mine["count"] += b["count"]
                if b["size"] < mine["size"]:
                    cnt = mine["count"]
                    mine.update(b)
                    mine["count"] = cnt
        for k, v in other.get("extra", {}).items():
            if isinstance(v, (int, float)) and isinstance(self.extra.get(k, 0), (int, float)):
                self.extra[k] = self.extra.get(k, 0) + v
            elif isinstance(v, list):
                self.extra.setdefault(k, [])
                if isinstance(self.extra[k], list) and len(self.extra[k]) < 8:
                    self.extra[k].extend(v[: 8 - len(self.extra[k])])
            else:
                self.extra.setdefault(k, v)
        self.harness_errors.extend(other.get("harness_errors", []))
        for p in other.get("exhaustive_parts", []):
            if p not in self.exhaustive_parts:
                self.exhaustive_parts.append(p)


# ---- known findings ----------------------------------------------------------

def load_known() -> dict[str, Any]:
    path = os.path.join(HOME, "known_findings.json")
    if not os.path.exists(path):
        return {"findings": [], "fixed": []}
    with open(path) as f:
        return json.load(f)


def match_known(prop: str, bucket: str, known: dict[str, Any]) -> dict[str, Any] | None:
    for k in known.get("findings", []):
        if k.get("property") != prop:
            continue
        pat = k.get("bucket")
        if pat is not None and pat == bucket:
            return k
        rx = k.get("bucket_regex")
        if rx is not None and re.fullmatch(rx, bucket):
            return k
    return None


def finish(c: Campaign, replay_writer=None) -> int:
    """Write evidence, print verdict lines, return the process exit code."""
    known = load_known()
    known_hits: dict[str, int] = {}
    unknown: list[tuple[str, dict[str, Any]]] = []
    known_buckets: dict[str, list[str]] = {}
    known_what: dict[str, str] = {}
    for bucket, b in sorted(c.buckets.items()):
        k = match_known(c.prop, bucket, known)
        if k is not None:
            known_hits[k["id"]] = known_hits.get(k["id"], 0) + b["count"]
            known_buckets.setdefault(k["id"], []).append(bucket)
            known_what[k["id"]] = k["what"]
        else:
            unknown.append((bucket, b))
    for fid, n in known_hits.items():
        print(f"KNOWN-FINDING: property={c.prop} {fid}: {known_what[fid]} ({n} case(s) excluded; buckets: {', '.join(known_buckets[fid])})")

    rc = 0
    out_home = os.path.join(HOME, "scratch") if os.environ.get("VERIF_NO_EVIDENCE") else HOME
    replay_dir = os.path.join(out_home, "replays")
    os.makedirs(replay_dir, exist_ok=True)
    for bucket, b in unknown:
        name = f"{c.prop}-{chash(bucket)}.json"
        path = os.path.join(replay_dir, name)
        with open(path, "w") as f:
            json.dump({"property": c.prop, "bucket": bucket, "detail": b["detail"], "sig": b["sig"],
                       "case": b["case"]}, f, indent=1, sort_keys=True, default=str)
        print(f"VIOLATION property={c.prop} replay=replays/{name}")
        print(f"  bucket: {bucket}")
        print(f"  detail: {str(b['detail'])[:600]}")
        rc = 1

    if c.harness_errors and rc == 0:
        for e in c.harness_errors[:5]:
            print(f"HARNESS-ERROR: property={c.prop} {e}")
        rc = 2

    coverage: dict[str, Any] = {
        "evaluations": c.evaluations,
        "distinct_nontrivial": len(c.nontrivial),
        "rule": c.rule,
        "samples": c.samples[: c.max_samples],
        "class_histogram": dict(sorted(c.classes.items())),
        "known_findings_excluded": known_hits,
        "violation_buckets": {k: v["count"] for k, v in c.buckets.items()},
    }
    if c.exhaustive_parts:
        coverage["exhaustive_subspaces"] = c.exhaustive_parts
    coverage.update(c.extra)
    ev = {
        "property_id": c.prop,
        "tier": c.tier,
        "seed": c.seed,
        "level": c.level,
        "coverage": coverage,
        "assumptions": c.assumptions,
        "wall_s": round(time.time() - c.t0, 2),
        "violations": len(unknown),
    }
    os.makedirs(os.path.join(out_home, "evidence"), exist_ok=True)
    with open(os.path.join(out_home, "evidence", f"{c.prop}.json"), "w") as f:
        json.dump(ev, f, indent=1, sort_keys=True, default=str)
    print(f"{c.prop} tier={c.tier} seed={c.seed}: evaluations={c.evaluations} "
          f"distinct_nontrivial={len(c.nontrivial)} buckets={len(c.buckets)} "
          f"(known={len(c.buckets) - len(unknown)}) wall={ev['wall_s']}s exit={rc}")
    return rc
