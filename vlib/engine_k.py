"""Engine K: crash-point enumerator (DESIGN.md 2.6).

A reference run under engine D (FIFO) is observed through the connection's commit hook: after every
commit of the engine the durable bytes S_i are kept (``conn.serialize()``) together with the message in
flight and the ledger length.  The durable state after a kill at any instant between commit i and i+1 is
exactly S_i (SQLite's atomic commit is trusted), so enumerating i enumerates every kill instant as far as
the database is concerned; an interval in which a task was executing is recovered twice - with the
external effect (ledger entry) of that execution absent and present.

Recovery of one crash state = process restart (all engine singletons dropped, fresh connection
deserialised from S_i) -> all locks lapse -> ``processor.run_recovery()`` -> FIFO drain.
"""

from __future__ import annotations

import json
from typing import Any, Callable

from vlib import tasks
from vlib.engine_d import Run, Schedule
from vlib.world import World


def crash_states(spec: dict[str, Any], events: bool = False, schedule: Schedule | None = None,
                 keep: Callable[[dict[str, Any]], bool] | None = None, prepare: Callable[[Run], None] | None = None) -> list[dict[str, Any]]:
    """Run the spec and return one record per engine commit: blob, step, phase, in-flight message, ledger length.
    ``prepare(run)`` may register injections (signals, cancels) before the run starts."""
    states: list[dict[str, Any]] = []
    run = Run(spec, schedule or Schedule(), events=events)
    if prepare is not None:
        prepare(run)
    conn = run.w.conn

    def on_commit(c) -> None:  # noqa: ANN001
        st = {"index": len(states), "blob": c.serialize(), "step": run.steps, "phase": run.phase,
              "inflight": dict(run.inflight) if run.inflight and run.phase == "handle" else None,
              "ledger_len": len(tasks.LEDGER)}
        states.append(st)

    conn.v_on_commit = on_commit
    try:
        run.drain()
    finally:
        conn.v_on_commit = None
    ledger = tasks.ledger_snapshot()
    out = run.outcome()
    out["steps"] = run.steps
    for i, st in enumerate(states):
        nxt = states[i + 1]["ledger_len"] if i + 1 < len(states) else len(ledger)
        st["ledger_len_next"] = nxt
        st["total_commits"] = len(states)
    ref = {"outcome": out, "ledger": ledger, "audit": run.w.audit(), "steps": run.steps}
    for st in states:
        st["ref"] = ref
    return states


def recover_from(spec: dict[str, Any], cs: dict[str, Any], after_execute: bool = False, recoveries: int = 1,
                 events: bool = False, snapshot_recovery: bool = False, max_steps: int = 3000,
                 schedule: Schedule | None = None, after_recovery: Any = None) -> dict[str, Any]:
    """Restart from crash state ``cs`` and run to quiescence. Returns outcome, audit, ledger, recovery results."""
    ref = cs["ref"]
    cut = cs["ledger_len_next"] if after_execute else cs["ledger_len"]
    tasks.reset_ledger()
    tasks.LEDGER.extend(dict(e) for e in ref["ledger"][:cut])
    w = World(restore=cs["blob"], events=events)
    w.lapse_all_locks()
    run = Run(spec, schedule or Schedule(), world=w, max_steps=max_steps)
    run.steps = cs["step"]
    inner: list[dict[str, Any]] = []
    if snapshot_recovery:
        def on_commit(c) -> None:  # noqa: ANN001
            inner.append({"index": len(inner), "blob": c.serialize(), "step": run.steps, "phase": run.phase,
                          "inflight": dict(run.inflight) if run.inflight and run.phase == "handle" else None,
                          "ledger_len": len(tasks.LEDGER)})
        w.conn.v_on_commit = on_commit
    results = []
    allowed_extra = None
    if cs.get("inflight"):
        try:
            tid = json.loads(cs["inflight"]["payload"]).get("task_id")
        except Exception:  # noqa: BLE001
            tid = None
        if tid:
            r = w.rows("SELECT s.name, t.name FROM task_executions t JOIN stage_executions s ON t.stage_id = s.id WHERE t.id = ?", (tid,))
            if r:
                allowed_extra = f"{r[0][0]}.{r[0][1]}"
    try:
        w.set_ctx(run.steps, "Recovery")
        for _ in range(recoveries):
            results.extend(w.processor.run_recovery())
        if after_recovery is not None:
            after_recovery(run)  # e.g. an operator / external sender acting on the restarted system before anything is delivered
        run.drain()
    finally:
        w.conn.v_on_commit = None
    led = tasks.ledger_snapshot()
    out = run.outcome()
    for i, st in enumerate(inner):
        st["ledger_len_next"] = inner[i + 1]["ledger_len"] if i + 1 < len(inner) else len(led)
        st["ref"] = {"outcome": ref["outcome"], "ledger": led, "audit": None, "steps": run.steps}
    res = {"outcome": out, "audit": w.audit(), "ledger": led, "recovery": [(r.status, r.stages_requeued) for r in results],
           "stuck": None, "allowed_extra": allowed_extra, "step_bound_hit": run.step_bound_hit, "inner_states": inner, "handler_errors": run.handler_errors,
           "steps": run.steps}
    if out["workflow"] not in ("SUCCEEDED", "FAILED_CONTINUE", "TERMINAL", "CANCELED", "STOPPED", "SKIPPED"):
        from vlib.oracles import diagnose_stuck

        res["stuck"] = diagnose_stuck(run)
    wf = run.workflow()
    res["half_started"] = [s.name for s in wf.stages if s.status.name == "NOT_STARTED" and s.start_time is not None]
    res["events_world"] = w if events else None
    res["buffered"] = {}
    for sid, ctx in w.rows("SELECT id, context FROM stage_executions"):
        try:
            b = json.loads(ctx or "{}").get("_buffered_signals")
        except Exception:  # noqa: BLE001
            b = None
        if b:
            res["buffered"][sid.replace("W1-", "")] = b
    return res


def inflight_task(cs: dict[str, Any]) -> str | None:
    """'<stage>.t<i>' addressed by the message in flight at the crash (None when between steps)."""
    inf = cs.get("inflight")
    if not inf:
        return None
    try:
        p = json.loads(inf["payload"])
    except Exception:  # noqa: BLE001
        return None
    tid = p.get("task_id")
    if not tid:
        return None
    # task ids are '<wf>-<stage>-t<i>' for predefined / builder-built tasks
    parts = tid.split("-")
    if len(parts) >= 3 and parts[-1].startswith("t"):
        return f"{'-'.join(parts[1:-1])}.{parts[-1]}"
    return None
