"""Schedule generation shared by the engine-D checks: Hypothesis strategies for delivery
schedules (uniform / sparse perturbation / hold-back bias), bounded-exhaustive DFS over the
first d decisions, FIFO reference cache."""

from __future__ import annotations

from typing import Any, Callable

from hypothesis import strategies as st

from vlib.campaign import chash
from vlib.engine_d import Run, Schedule

MSG_TYPES = ["StartStage", "StartTask", "RunTask", "CompleteTask", "CompleteStage", "CompleteWorkflow", "JumpToStage",
             "SkipStage", "CancelStage", "ContinueParentStage", "ResumeStage", "PauseTask", "SignalStage", "CancelWorkflow"]


class HoldSchedule(Schedule):
    """Schedule with a hold-back bias: messages of one type are withheld while anything else is
    deliverable, for up to ``hold_for`` deliveries each time such a message appears (stale-message hazard)."""

    def __init__(self, decisions: list[int], max_redeliver: int, hold_type: str | None, hold_for: int) -> None:
        super().__init__(decisions, max_redeliver)
        self.hold_type = hold_type
        self.hold_for = hold_for
        self.held: dict[int, int] = {}

    def choose(self, rows: list[dict[str, Any]]) -> tuple[dict[str, Any], bool]:
        if self.hold_type is not None:
            free = []
            for r in rows:
                if r["type"] == self.hold_type and self.held.get(r["id"], 0) < self.hold_for:
                    continue
                free.append(r)
            if free and len(free) < len(rows):
                for r in rows:
                    if r not in free:
                        self.held[r["id"]] = self.held.get(r["id"], 0) + 1
                self.out_of_order += 1
                rows = free
        return super().choose(rows)


class HoldOneSchedule(Schedule):
    """One single message - the ``occurrence``-th row of type ``hold_type`` that becomes pending - is withheld while anything
    else is deliverable, for up to ``hold_for`` deliveries; everything else follows the decision list (FIFO by default).
    This is the long-delayed straggler (a redelivery after a lock lapse, a slow worker) that survives a jump, a cancel or a
    restart of its stage, which a per-type hold cannot produce because it stalls the whole workflow."""

    def __init__(self, decisions: list[int], max_redeliver: int, hold_type: str, occurrence: int, hold_for: int) -> None:
        super().__init__(decisions, max_redeliver)
        self.hold_type = hold_type
        self.occurrence = occurrence
        self.hold_for = hold_for
        self.seen: list[int] = []
        self.target: int | None = None
        self.held = 0

    def choose(self, rows: list[dict[str, Any]]) -> tuple[dict[str, Any], bool]:
        for r in rows:
            if r["type"] == self.hold_type and r["id"] not in self.seen:
                self.seen.append(r["id"])
                if len(self.seen) - 1 == self.occurrence:
                    self.target = r["id"]
        if self.target is not None and self.held < self.hold_for:
            free = [r for r in rows if r["id"] != self.target]
            if free and len(free) < len(rows):
                self.held += 1
                self.out_of_order += 1
                rows = free
        return super().choose(rows)


@st.composite
def schedule_desc(draw, max_len: int = 120) -> dict[str, Any]:
    style = draw(st.sampled_from(["uniform", "uniform", "sparse", "hold", "hold", "hold-one", "hold-one", "fifo-lossy"]))
    if style == "uniform":
        d = draw(st.lists(st.integers(0, 9), min_size=1, max_size=max_len))
    elif style == "sparse":
        n = draw(st.integers(1, max_len))
        pos = draw(st.lists(st.integers(0, n - 1), min_size=1, max_size=6))
        d = [0] * n
        for p in pos:
            d[p] = draw(st.integers(1, 9))
    elif style == "fifo-lossy":
        d = draw(st.lists(st.sampled_from([0, 0, 1]), min_size=1, max_size=max_len))
    else:
        d = draw(st.lists(st.sampled_from([0, 0, 0, 2, 4, 1]), min_size=0, max_size=max_len))
    desc: dict[str, Any] = {"style": style, "d": d, "R": draw(st.integers(1, 3))}
    if style == "hold":
        desc["hold"] = draw(st.sampled_from(MSG_TYPES))
        desc["hold_for"] = draw(st.integers(1, 40))
    if style == "hold-one":
        desc["hold_one"] = draw(st.sampled_from(MSG_TYPES))
        desc["occurrence"] = draw(st.integers(0, 6))
        desc["hold_for"] = draw(st.integers(3, 80))
    return desc


def make_schedule(desc: dict[str, Any]) -> Schedule:
    if desc.get("hold_one"):
        return HoldOneSchedule(desc["d"], desc.get("R", 2), desc["hold_one"], desc.get("occurrence", 0), desc.get("hold_for", 20))
    if desc.get("hold"):
        return HoldSchedule(desc["d"], desc.get("R", 2), desc["hold"], desc.get("hold_for", 10))
    return Schedule(desc["d"], desc.get("R", 2))


_REF_CACHE: dict[str, dict[str, Any]] = {}


def reference_outcome(spec: dict[str, Any], **kw: Any) -> dict[str, Any]:
    k = chash([spec, sorted(kw.items())])
    if k not in _REF_CACHE:
        r = Run(spec, Schedule(), **kw).drain()
        o = r.outcome()
        o["steps"] = r.steps
        o["step_bound_hit"] = r.step_bound_hit
        o["handler_errors"] = list(r.handler_errors)
        _REF_CACHE[k] = o
        if len(_REF_CACHE) > 400:
            _REF_CACHE.pop(next(iter(_REF_CACHE)))
    return _REF_CACHE[k]


def explore_exhaustive(spec: dict[str, Any], depth: int, visit: Callable[[Run, list[int]], None], max_redeliver: int = 2,
                       max_runs: int = 200000, make_run: Callable[[dict[str, Any], Schedule], Run] | None = None,
                       roots: list[list[int]] | None = None, expand: bool = True, offset: int = 0) -> tuple[int, list[list[int]]]:
    """All schedules whose decisions [offset, offset+depth) range over (pending row x ack/lose), FIFO before and afterwards.
    Stateless DFS: a vector is identified with its trailing zeros stripped, so each is run exactly once.
    ``roots``: start from these prefixes instead of the empty one (sharding); ``expand=False``: run only the
    roots and return their children (used to split the tree over processes)."""
    runs = 0
    stack: list[list[int]] = [list(r) for r in roots] if roots is not None else [[]]
    children: list[list[int]] = []
    while stack and runs < max_runs:
        prefix = stack.pop()
        sched = _Recording([0] * offset + prefix, max_redeliver, depth + offset)
        run = make_run(spec, sched) if make_run else Run(spec, sched)
        run.drain()
        runs += 1
        visit(run, prefix)
        for p in range(len(prefix), depth):
            if p + offset >= len(sched.widths):
                break
            for v in range(1, 2 * sched.widths[p + offset]):
                child = prefix + [0] * (p - len(prefix)) + [v]
                (stack if expand else children).append(child)
    return runs, children


class _Recording(Schedule):
    def __init__(self, decisions: list[int], max_redeliver: int, depth: int) -> None:
        super().__init__(decisions, max_redeliver)
        self.widths: list[int] = []
        self.depth = depth

    def choose(self, rows: list[dict[str, Any]]) -> tuple[dict[str, Any], bool]:
        if len(self.widths) < self.depth:
            self.widths.append(len(rows))
        return super().choose(rows)
