"""WorkflowSpec: plain-JSON description of a generated workload (DESIGN.md 2.3), its
translation into engine objects, the hand-written core corpus and Hypothesis strategies."""

from __future__ import annotations

import copy
from typing import Any

from hypothesis import strategies as st

JOIN = {"AND": "AND", "OR": "OR", "DISC": "DISCRIMINATOR", "NOFM": "N_OF_M"}


def stage(ref: str, req: list[str] | None = None, tasks: list[dict[str, Any]] | None = None, **kw: Any) -> dict[str, Any]:
    d = {"ref": ref, "req": list(req or []), "tasks": tasks if tasks is not None else [{"b": "ok"}]}
    d.update(kw)
    return d


def emit(key: str, mode: str = "const", **kw: Any) -> dict[str, Any]:
    d = {"key": key, "mode": mode}
    d.update(kw)
    return d


def ok(*emits: dict[str, Any]) -> dict[str, Any]:
    return {"b": "ok", "emit": list(emits)}


def build_workflow(spec: dict[str, Any], wf_id: str = "W1"):
    from stabilize.models.stage import JoinType, SplitType, StageExecution
    from stabilize.models.workflow import Workflow

    from vlib.tasks import make_task_models

    stages = []
    for s in spec["stages"]:
        ctx = copy.deepcopy(s.get("ctx", {}))
        ctx["_v"] = {"tasks": copy.deepcopy(s["tasks"]), "before": s.get("before", 0), "after": s.get("after", 0)}
        syn = s.get("syn") or {}
        if syn and not syn.get("pre"):
            ctx["_v"]["syn"] = copy.deepcopy(syn)
        if s.get("enabled") is not None:
            ctx["stageEnabled"] = s["enabled"]
        if s.get("cof"):
            ctx["continuePipelineOnFailure"] = True
        if s.get("stop"):
            ctx["failPipeline"] = False  # a failing task ends the stage STOPPED: its branch halts, the other branches go on
        if s.get("before") or s.get("after") or (syn and not syn.get("pre")):
            typ = "vsyn"
        elif s.get("built"):
            typ = "vb"
        else:
            typ = "v"
        sid = f"{wf_id}-{s['ref']}"
        se = StageExecution(
            id=sid, ref_id=s["ref"], type=typ, name=s["ref"], context=ctx,
            requisite_stage_ref_ids=set(s.get("req", [])),
            join_type=JoinType[JOIN[s.get("join", "AND")]], join_threshold=s.get("threshold", 0),
            split_type=SplitType.OR if s.get("split") == "OR" else SplitType.AND,
            split_conditions=dict(s.get("conds", {})),
            mutex_key=s.get("mutex"), deferred_choice_group=s.get("choice"),
            output_reducers=dict(s.get("reducers", {})),
        )
        if not s.get("built"):
            se.tasks = make_task_models(s["tasks"], sid)
        stages.append(se)
        if syn.get("pre"):
            # children declared with the workflow itself (StageExecution.create_synthetic, as in the guide) instead of by a builder
            from stabilize.models.stage import SyntheticStageOwner

            for kind, owner in (("before", SyntheticStageOwner.STAGE_BEFORE), ("after", SyntheticStageOwner.STAGE_AFTER)):
                prev = None
                for i, b in enumerate(syn.get(kind) or []):
                    cscript = [{"b": "fail" if b == "failcof" else b}]
                    cctx: dict[str, Any] = {"_v": {"tasks": cscript}}
                    if b == "failcof":
                        cctx["continuePipelineOnFailure"] = True
                    ch = StageExecution.create_synthetic(type="v", name=f"{s['ref']}/{kind}{i}", parent=se, owner=owner, context=cctx)
                    ch.id = f"{sid}-{kind}{i}"
                    ch.ref_id = f"{s['ref']}/{kind}{i}"
                    ch.tasks = make_task_models(cscript, ch.id)
                    if prev is not None and not syn.get("parallel"):
                        ch.requisite_stage_ref_ids = {prev.ref_id}
                    prev = ch
                    stages.append(ch)
    wctx = {}
    if spec.get("max_jumps") is not None:
        wctx["_max_jumps"] = spec["max_jumps"]
    wf = Workflow.create(application="verif", name=spec.get("name", "wf"), stages=stages, context=wctx)
    wf.id = wf_id
    return wf


# --------------------------------------------------------------------------- spec analysis helpers

def by_ref(spec: dict[str, Any]) -> dict[str, dict[str, Any]]:
    return {s["ref"]: s for s in spec["stages"]}


def ancestors(spec: dict[str, Any], ref: str) -> set[str]:
    m = by_ref(spec)
    seen: set[str] = set()
    todo = list(m[ref]["req"])
    while todo:
        r = todo.pop()
        if r in seen:
            continue
        seen.add(r)
        todo.extend(m[r]["req"])
    return seen


def descendants(spec: dict[str, Any], ref: str) -> set[str]:
    out: set[str] = set()
    changed = True
    while changed:
        changed = False
        for s in spec["stages"]:
            if s["ref"] not in out and (ref in s["req"] or out & set(s["req"])):
                out.add(s["ref"])
                changed = True
    return out


def features(spec: dict[str, Any]) -> list[str]:
    f: set[str] = set()
    for s in spec["stages"]:
        if len(s["tasks"]) > 1:
            f.add("multi-task")
        for t in s["tasks"]:
            b = t.get("b", "ok")
            if b != "ok":
                f.add(b)
            if b == "fail" and s.get("cof"):
                f.add("continue-on-failure")
            elif b == "fail" and s.get("stop"):
                f.add("stopped-failure")
            elif b == "fail":
                f.add("terminal-failure")
        if len(s["req"]) > 1:
            f.add("join-" + s.get("join", "AND"))
        if s.get("split") == "OR":
            f.add("or-split")
        if s.get("enabled") is not None:
            f.add("stage-enabled")
        if s.get("mutex"):
            f.add("mutex")
        if s.get("choice"):
            f.add("choice")
        syn = s.get("syn") or {}
        if s.get("before") or syn.get("before"):
            f.add("before-child")
        if s.get("after") or syn.get("after"):
            f.add("after-child")
        if syn.get("onfail"):
            f.add("onfail-child")
        if any(b in ("fail", "failcof") for k in ("before", "after", "onfail") for b in (syn.get(k) or [])):
            f.add("failing-child")
        if any(b == "failcof" for k in ("before", "after", "onfail") for b in (syn.get(k) or [])):
            f.add("continue-on-failure-child")
        if syn.get("pre"):
            f.add("predeclared-child")
        if syn.get("parallel") and max(len(syn.get(k) or []) for k in ("before", "after", "onfail")) > 1:
            f.add("parallel-children")
        if s.get("built"):
            f.add("built-tasks")
        if s.get("reducers"):
            f.add("reducers")
    if not f:
        f.add("plain")
    return sorted(f)


# --------------------------------------------------------------------------- core corpus

def core_corpus() -> dict[str, dict[str, Any]]:
    c: dict[str, dict[str, Any]] = {}
    c["chain"] = {"name": "chain", "stages": [
        stage("a", [], [ok(emit("k_a"))]), stage("b", ["a"], [ok(emit("k_b", "echo", src="k_a"))]),
        stage("c", ["b"], [ok(emit("k_c", "echo", src="k_b"))])]}
    c["diamond"] = {"name": "diamond", "stages": [
        stage("a", [], [ok(emit("k_a"))]), stage("b", ["a"], [ok(emit("k_b"))]), stage("c", ["a"], [ok(emit("k_c"))]),
        stage("d", ["b", "c"], [ok(emit("k_d", "echo", src="k_b"))])]}
    c["multitask"] = {"name": "multitask", "stages": [
        stage("a", [], [ok(emit("k_a")), ok(emit("k_a2")), ok()]), stage("b", ["a"], [ok(), ok(emit("k_b"))])]}
    c["terminal"] = {"name": "terminal", "stages": [
        stage("a", [], [ok(emit("k_a"))]), stage("b", ["a"], [{"b": "fail"}]), stage("c", ["b"], [ok()])]}
    c["terminal_sibling"] = {"name": "terminal_sibling", "stages": [
        stage("a", [], [ok(emit("k_a"))]), stage("b", ["a"], [{"b": "fail"}]), stage("s", ["a"], [ok(), ok()]),
        stage("j", ["b", "s"], [ok()])]}
    c["cof"] = {"name": "cof", "stages": [
        stage("a", [], [ok(emit("k_a"))]), stage("b", ["a"], [{"b": "fail"}], cof=True),
        stage("c", ["b"], [ok(emit("k_c"))])]}
    c["poll"] = {"name": "poll", "stages": [
        stage("a", [], [{"b": "poll", "k": 2, "emit": [emit("k_a")]}]), stage("b", ["a"], [ok()])]}
    c["transient"] = {"name": "transient", "stages": [
        stage("a", [], [ok(emit("k_a"))]), stage("b", ["a"], [{"b": "transient", "k": 2, "emit": [emit("k_b")]}]),
        stage("c", ["b"], [ok()])]}
    c["selfloop"] = {"name": "selfloop", "stages": [
        stage("a", [], [{"b": "jump", "to": "a", "j": 2, "emit": [emit("k_a", "iter")]}]), stage("b", ["a"], [ok()])]}
    c["loop2"] = {"name": "loop2", "stages": [
        stage("a", [], [ok(emit("k_a", "iter"))]),
        stage("r", ["a"], [{"b": "jump", "to": "a", "j": 2, "emit": [emit("k_r")]}]), stage("z", ["r"], [ok()])]}
    c["loop3"] = {"name": "loop3", "stages": [
        stage("a", [], [ok(emit("k_a", "iter"))]), stage("m", ["a"], [ok(emit("k_m", "echo", src="k_a"))]),
        stage("r", ["m"], [{"b": "jump", "to": "a", "j": 2}]), stage("z", ["r"], [ok()])]}
    c["loop_side"] = {"name": "loop_side", "stages": [
        stage("s", [], [ok(emit("k_s"))]), stage("a", ["s"], [ok(emit("k_a", "iter"))]), stage("side", ["s"], [ok(emit("k_side"))]),
        stage("r", ["a"], [{"b": "jump", "to": "a", "j": 1}]), stage("j", ["r", "side"], [ok()])]}
    c["fwdjump"] = {"name": "fwdjump", "stages": [
        stage("a", [], [{"b": "jump", "to": "d", "j": 1}]), stage("b", ["a"], [ok()]), stage("c", ["a"], [ok()]),
        stage("d", ["b", "c"], [ok()])]}
    c["firstof"] = {"name": "firstof", "stages": [
        stage("a", [], [ok(emit("k_a"))]), stage("b", ["a"], [ok(emit("k_b"))]), stage("c", ["a"], [ok(), ok(emit("k_c"))]),
        stage("j", ["b", "c"], [ok()], join="DISC"), stage("z", ["j"], [ok()])]}
    c["quorum"] = {"name": "quorum", "stages": [
        stage("a", [], [ok()]), stage("b", ["a"], [ok()]), stage("c", ["a"], [ok(), ok()]), stage("d", ["a"], [ok(), ok(), ok()]),
        stage("j", ["b", "c", "d"], [ok()], join="NOFM", threshold=2), stage("z", ["j"], [ok()])]}
    c["orsplit"] = {"name": "orsplit", "stages": [
        stage("x", [], [ok(emit("k_x"))], split="OR", conds={"a": "true", "b": "false"}),
        stage("a", ["x"], [ok(emit("k_a"))]), stage("b", ["x"], [ok(emit("k_b"))]),
        stage("j", ["a", "b"], [ok()], join="OR")]}
    c["skip"] = {"name": "skip", "stages": [
        stage("a", [], [ok(emit("k_a"))]), stage("b", ["a"], [ok(emit("k_b"))], enabled=False), stage("c", ["b"], [ok()])]}
    c["before"] = {"name": "before", "stages": [
        stage("a", [], [ok(emit("k_a"))]), stage("p", ["a"], [ok(emit("k_p"))], before=1), stage("z", ["p"], [ok()])]}
    c["after"] = {"name": "after", "stages": [
        stage("a", [], [ok()]), stage("p", ["a"], [ok(emit("k_p"))], after=1), stage("z", ["p"], [ok()])]}
    c["mutex"] = {"name": "mutex", "stages": [
        stage("a", [], [ok()]), stage("m1", ["a"], [ok(), ok()], mutex="k"), stage("m2", ["a"], [ok(), ok()], mutex="k"),
        stage("z", ["m1", "m2"], [ok()])]}
    c["choice"] = {"name": "choice", "stages": [
        stage("a", [], [ok()]), stage("c1", ["a"], [ok()], choice="g"), stage("c2", ["a"], [ok()], choice="g")]}
    c["gate"] = {"name": "gate", "stages": [
        stage("a", [], [ok(emit("k_a"))]), stage("g", ["a"], [{"b": "suspend", "emit": [emit("k_g")]}]), stage("z", ["g"], [ok()])]}
    c["built"] = {"name": "built", "stages": [
        stage("a", [], [ok(emit("k_a"))], built=True), stage("b", ["a"], [ok(emit("k_b", "echo", src="k_a")), ok()], built=True)]}
    return c


# --------------------------------------------------------------------------- strategies

KEYS = ["k_0", "k_1", "k_2", "k_3"]


@st.composite
def dag_spec(draw, max_stages: int = 6, allow: tuple[str, ...] = ("multi", "fail", "cof", "poll", "transient", "skip"),
             joins: tuple[str, ...] = ("AND",), emit_keys: bool = True) -> dict[str, Any]:
    """Random DAG (stage i depends only on earlier stages -> acyclic by construction)."""
    n = draw(st.integers(2, max_stages))
    stages = []
    for i in range(n):
        ref = f"s{i}"
        if i == 0:
            req: list[str] = []
        else:
            k = draw(st.integers(0 if i > 1 and draw(st.integers(0, 5)) == 0 else 1, min(3, i)))
            req = sorted(draw(st.lists(st.sampled_from([f"s{j}" for j in range(i)]), min_size=k, max_size=k, unique=True)))
        nt = draw(st.integers(1, 3)) if "multi" in allow else 1
        tasks = []
        for _ in range(nt):
            kinds = ["ok", "ok", "ok"]
            if "poll" in allow:
                kinds.append("poll")
            if "transient" in allow:
                kinds.append("transient")
            if "fail" in allow:
                kinds.append("fail")
            if "disabled" in allow:
                kinds.append("disabled")  # a SkippableTask whose is_enabled() is false
            b = draw(st.sampled_from(kinds))
            t: dict[str, Any] = {"b": b}
            if b in ("poll", "transient"):
                t["k"] = draw(st.integers(1, 2))
            if b not in ("fail", "disabled") and emit_keys and draw(st.booleans()):
                key = draw(st.sampled_from(KEYS))
                t["emit"] = [emit(key, "const", list=(key == "k_3"))]
            tasks.append(t)
        s = stage(ref, req, tasks)
        if any(t["b"] == "fail" for t in tasks) and "cof" in allow and draw(st.booleans()):
            s["cof"] = True
        elif any(t["b"] == "fail" for t in tasks) and "stop" in allow and draw(st.booleans()):
            s["stop"] = True
        if "skip" in allow and i > 0 and draw(st.integers(0, 7)) == 0:
            s["enabled"] = False
        if len(req) > 1:
            j = draw(st.sampled_from(list(joins)))
            if j != "AND":
                s["join"] = j
                if j == "NOFM":
                    s["threshold"] = draw(st.integers(1, len(req)))
        stages.append(s)
    return {"name": "gen", "stages": stages}


@st.composite
def syn_confluent_spec(draw, allow_fail: bool = True) -> dict[str, Any]:
    """a -> p -> z where p carries 0-3 succeeding before / after children (parallel or sequential, created by the stage's
    builder or declared with the workflow), optionally a failing own task with on-failure children.  Confluent: no
    unrelated stage runs beside a failure, so every delivery order must give the FIFO outcome."""
    nb, na, pre = draw(st.integers(0, 3)), draw(st.integers(0, 3)), draw(st.booleans())
    fail = allow_fail and draw(st.integers(0, 3)) == 0
    syn: dict[str, Any] = {"before": ["ok"] * nb, "after": ["ok"] * na, "parallel": draw(st.booleans()), "pre": pre}
    if not pre:
        syn["onfail"] = ["ok"] * draw(st.integers(0, 2))
    if not (nb or na or syn.get("onfail")):
        syn["before"] = ["ok"]
    p = stage("p", ["a"], [{"b": "fail"}] if fail else [ok(emit("k_p"))] * draw(st.integers(1, 2)), syn=syn)
    if fail and draw(st.booleans()):
        p["cof"] = True
    return {"name": "synconf", "stages": [stage("a", [], [ok(emit("k_a"))]), p, stage("z", ["p"], [ok()])]}


LOOP_SHAPES = ["self", "cycle2", "cycle3", "cycle4", "side", "side_target", "router_multi", "fwd", "unknown", "two_routers", "mid_target", "nested"]


def make_loop(shape: str, j: int, max_jumps: int | None, tail: bool = True) -> dict[str, Any]:
    """Loop workloads named in C15: self loop, 2-4 stage cycles, loop with side branch and fan-in,
    forward jump over a diamond, unknown target, two routers, jump into the middle of a chain."""
    jt = lambda to: {"b": "jump", "to": to, "j": j, "emit": [emit("k_r", "iter")]}  # noqa: E731
    if shape == "self":
        st_ = [stage("a", [], [jt("a")])]
        last = "a"
    elif shape in ("cycle2", "cycle3", "cycle4"):
        n = int(shape[-1])
        st_ = [stage("a", [], [ok(emit("k_a", "iter"))])]
        prev = "a"
        for i in range(n - 2):
            st_.append(stage(f"m{i}", [prev], [ok(emit(f"k_m{i}", "echo", src="k_a"))]))
            prev = f"m{i}"
        st_.append(stage("r", [prev], [jt("a")]))
        last = "r"
    elif shape == "side":
        st_ = [stage("s", [], [ok(emit("k_s"))]), stage("a", ["s"], [ok(emit("k_a", "iter"))]),
               stage("side", ["s"], [ok(emit("k_side"))]), stage("r", ["a"], [jt("a")]), stage("j", ["r", "side"], [ok()])]
        last = "j"
    elif shape == "side_target":
        # the side branch hangs off the jump target itself (so it is re-armed with it) and joins the loop exit
        st_ = [stage("a", [], [ok(emit("k_a", "iter"))]), stage("b", ["a"], [ok()]), stage("s1", ["a"], [ok(emit("k_s1", "echo", src="k_a"))]),
               stage("s2", ["s1"], [ok()]), stage("r", ["b"], [jt("a")]), stage("j", ["r", "s2"], [ok()])]
        last = "j"
    elif shape == "router_multi":
        # the jumping task is followed by another task of the same stage (which only runs once the loop is left)
        st_ = [stage("a", [], [ok(emit("k_a", "iter"))]), stage("r", ["a"], [jt("a"), ok(emit("k_r2"))])]
        last = "r"
    elif shape == "fwd":
        st_ = [stage("a", [], [jt("d")]), stage("b", ["a"], [ok()]), stage("c", ["a"], [ok()]), stage("d", ["b", "c"], [ok()])]
        last = "d"
    elif shape == "unknown":
        st_ = [stage("a", [], [ok()]), stage("r", ["a"], [jt("nowhere")])]
        last = "r"
    elif shape == "two_routers":
        st_ = [stage("a", [], [ok(emit("k_a", "iter"))]), stage("r1", ["a"], [jt("a")]),
               stage("b", ["r1"], [ok(emit("k_b", "iter"))]), stage("r2", ["b"], [jt("b")])]
        last = "r2"
    elif shape == "mid_target":
        st_ = [stage("p", [], [ok(emit("k_p"))]), stage("a", ["p"], [ok(emit("k_a", "iter"))]), stage("r", ["a"], [jt("a")])]
        last = "r"
    elif shape == "nested":
        # inner loop x<-r1 inside an outer loop w<-r2: x is first a jump target, later re-armed as a mere downstream of w
        st_ = [stage("w", [], [ok(emit("k_w", "iter"))]), stage("x", ["w"], [ok(emit("k_x", "iter"))]),
               stage("r1", ["x"], [jt("x")]), stage("r2", ["r1"], [jt("w")])]
        last = "r2"
    else:
        raise ValueError(shape)
    if tail and shape not in ("fwd",):
        st_.append(stage("z", [last], [ok()]))
    return {"name": f"loop-{shape}-j{j}-m{max_jumps}", "stages": st_, "max_jumps": max_jumps, "loop": {"shape": shape, "j": j}}


@st.composite
def loop_spec(draw, max_j: int = 3, allow_default_budget_exhaustion: bool = False) -> dict[str, Any]:
    shape = draw(st.sampled_from(LOOP_SHAPES))
    mj = draw(st.sampled_from([None, None, 0, 1, 2, 3]))
    j = draw(st.integers(-1, max_j))
    if j < 0 and mj is None and not allow_default_budget_exhaustion:
        mj = draw(st.integers(0, 3))
    return make_loop(shape, j, mj, tail=draw(st.booleans()))
