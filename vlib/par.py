"""Sharding over processes. Workers are forked before the parent creates any engine
object or thread; each returns a Campaign.export() dict that the parent merges."""

from __future__ import annotations

import multiprocessing as mp
import os
import traceback
from typing import Any, Callable


def _wrap(payload: tuple[Callable[..., dict[str, Any]], tuple[Any, ...]]) -> dict[str, Any]:
    fn, args = payload
    try:
        return fn(*args)
    except BaseException as e:  # harness failure inside a worker: surfaced as exit 2 by the parent
        return {"__error__": f"{type(e).__name__}: {e}\n{traceback.format_exc()[-1500:]}"}


def run_shards(camp, fn: Callable[..., dict[str, Any]], shard_args: list[tuple[Any, ...]], jobs: int) -> None:
    """Run fn(*args) for every args tuple; merge the exports into camp."""
    jobs = max(1, min(jobs, len(shard_args)))
    if jobs == 1 or os.environ.get("VERIF_NO_FORK"):
        results = [_wrap((fn, a)) for a in shard_args]
    else:
        ctx = mp.get_context("fork")
        with ctx.Pool(jobs, maxtasksperchild=None) as pool:
            results = pool.map(_wrap, [(fn, a) for a in shard_args], chunksize=1)
    for r in results:
        if "__error__" in r:
            camp.harness_error(r["__error__"])
        else:
            camp.merge(r)


def map_raw(fn: Callable[..., dict[str, Any]], shard_args: list[tuple[Any, ...]], jobs: int) -> list[dict[str, Any]]:
    """Like run_shards but returns the raw exports (for two-phase plans); worker errors raise."""
    if not shard_args:
        return []
    jobs = max(1, min(jobs, len(shard_args)))
    if jobs == 1 or os.environ.get("VERIF_NO_FORK"):
        results = [_wrap((fn, a)) for a in shard_args]
    else:
        ctx = mp.get_context("fork")
        with ctx.Pool(jobs) as pool:
            results = pool.map(_wrap, [(fn, a) for a in shard_args], chunksize=1)
    for r in results:
        if "__error__" in r:
            raise RuntimeError("worker failed: " + r["__error__"])
    return results


def split(items: list[Any], n: int) -> list[list[Any]]:
    n = max(1, n)
    out: list[list[Any]] = [[] for _ in range(n)]
    for i, it in enumerate(items):
        out[i % n].append(it)
    return [o for o in out if o]
