"""Engine I: interleaving scheduler - the harness owns the schedule (DESIGN.md 2.7).

N worker threads each run a small program.  Exactly one runs at a time; the baton moves only at yield
points: before every SQL statement issued while no transaction is open on the (shared) connection, after
every commit, and at every would-be sleep of a retry loop.  All threads share ONE in-memory connection, and
the baton never moves while a transaction is open, so no thread ever sees another's uncommitted rows - that is
exactly what SQLite's single-writer / committed-read semantics give real connections, which makes the yield
points a sound partial-order reduction of statement-level interleaving (assuming SQLite is serialisable).

Schedules: a dict {yield index -> thread to switch to} of pre-emptions (everything else: run the current
thread until it finishes, then the lowest unfinished one).  ``explore`` enumerates all schedules with at most P
pre-emptions by stateless DFS; ``random_preemptions`` draws deeper ones.
"""

from __future__ import annotations

import sqlite3
import threading
from typing import Any, Callable

from vlib import world as vworld
from vlib.world import World


class Abandon(BaseException):
    """Unwinds a parked worker when a schedule is abandoned (not swallowed by ``except Exception``)."""


class Sched:
    def __init__(self, n: int, preempt: dict[int, int], w: World, max_yields: int = 4000) -> None:
        self.n = n
        self.preempt = dict(preempt)
        self.w = w
        self.cv = threading.Condition()
        self.current = 0
        self.done = [False] * n
        self.yields = 0
        self.trace: list[tuple[int, int, str, tuple[int, ...]]] = []
        self.local = threading.local()
        self.labels = ["idle"] * n
        self.last_label: str | None = None
        self.errors: list[str] = []
        self.max_yields = max_yields
        self.abandoned = False
        self.switches = 0

    def tid(self) -> int | None:
        return getattr(self.local, "i", None)

    def _write_label(self, i: int) -> None:
        lab = self.labels[i]
        if lab != self.last_label and not self.w.conn.in_transaction:
            self.last_label = lab
            c = self.w.conn
            c.v_quiet += 1
            try:
                sqlite3.Connection.execute(c, "UPDATE v_ctx SET writer = ?", (lab,))
                sqlite3.Connection.commit(c)
            finally:
                c.v_quiet -= 1

    def yield_point(self, label: str) -> None:
        i = self.tid()
        if i is None:
            return
        with self.cv:
            if self.abandoned:
                raise Abandon()
            idx = self.yields
            self.yields += 1
            if idx > self.max_yields:
                self.abandoned = True
                self.cv.notify_all()
                raise Abandon()
            runnable = tuple(j for j in range(self.n) if not self.done[j])
            nxt = self.preempt.get(idx, i)
            if nxt not in runnable:
                nxt = i
            self.trace.append((idx, i, label, runnable))
            if nxt != i:
                self.switches += 1
                self.current = nxt
                self.cv.notify_all()
                while self.current != i:
                    self.cv.wait()
                    if self.abandoned:
                        raise Abandon()
            self._write_label(i)

    def _body(self, i: int, program: Callable[["Sched", int], None]) -> None:
        self.local.i = i
        with self.cv:
            while self.current != i:
                self.cv.wait()
                if self.abandoned:
                    self.done[i] = True
                    self.cv.notify_all()
                    return
        try:
            self._write_label(i)
            program(self, i)
        except Abandon:
            pass
        except BaseException as e:  # noqa: BLE001 - recorded, judged by the scenario
            self.errors.append(f"worker {i}: {type(e).__name__}: {str(e)[:200]}")
        finally:
            try:
                if self.w.conn.in_transaction:
                    self.w.conn.rollback()
            except Exception:  # noqa: BLE001
                pass
            with self.cv:
                self.done[i] = True
                rest = [j for j in range(self.n) if not self.done[j]]
                if rest:
                    self.current = rest[0]
                self.cv.notify_all()

    def run(self, programs: list[Callable[["Sched", int], None]]) -> None:
        conn = self.w.conn
        conn.v_before_execute = lambda c, sql: (None if c.in_transaction else self.yield_point("sql:" + sql.lstrip()[:24].replace("\n", " ")))
        conn.v_on_commit = lambda c: self.yield_point("commit")
        vworld.patch_sleeps(lambda: self.yield_point("sleep"))
        threads = [threading.Thread(target=self._body, args=(i, p), daemon=True) for i, p in enumerate(programs)]
        try:
            for t in threads:
                t.start()
            for t in threads:
                t.join(timeout=60)
            if any(t.is_alive() for t in threads):
                with self.cv:
                    self.abandoned = True
                    self.cv.notify_all()
                for t in threads:
                    t.join(timeout=5)
                self.errors.append("harness: schedule abandoned (thread did not finish)")
        finally:
            conn.v_before_execute = None
            conn.v_on_commit = None
            vworld.patch_sleeps(None)


def handle_one(row_filter: Callable[[dict[str, Any]], bool] | None = None):
    """Worker program: claim one message with the real poll_one, handle it, ack it."""
    def program(s: Sched, i: int) -> None:
        w = s.w
        m = w.queue.poll_one()
        if m is None:
            return
        s.labels[i] = type(m).__name__
        s._write_label(i)
        try:
            w.processor._handle_message(m)
        except Exception as e:  # noqa: BLE001 - what the processor does
            m.set_error_context(e)
            w.queue.reschedule(m, w.processor.config.retry_delay)
            s.errors.append(f"handler {type(m).__name__}: {type(e).__name__}: {str(e)[:160]}")
            return
        w.queue.ack(m)
    return program


def handle_upto(n: int):
    """Worker program: up to ``n`` poll cycles of a real worker loop (an empty poll is one cycle)."""
    one = handle_one()

    def program(s: Sched, i: int) -> None:
        for _ in range(n):
            one(s, i)
            s.labels[i] = "idle"
    return program


def explore(make_world: Callable[[], World], programs_for: Callable[[World], list[Callable[[Sched, int], None]]],
            judge: Callable[[World, Sched, dict[int, int]], None], max_preemptions: int, max_runs: int = 100000,
            roots: list[dict[int, int]] | None = None) -> int:
    """All schedules with at most ``max_preemptions`` pre-emptions (stateless DFS)."""
    runs = 0
    stack: list[dict[int, int]] = list(roots) if roots is not None else [{}]
    while stack and runs < max_runs:
        pre = stack.pop()
        w = make_world()
        progs = programs_for(w)
        s = Sched(len(progs), pre, w)
        s.run(progs)
        runs += 1
        judge(w, s, pre)
        if len(pre) < max_preemptions:
            last = max(pre) if pre else -1
            for idx, cur, _label, runnable in s.trace:
                if idx <= last:
                    continue
                for j in runnable:
                    if j != cur:
                        child = dict(pre)
                        child[idx] = j
                        stack.append(child)
    return runs


def run_schedule(make_world: Callable[[], World], programs_for: Callable[[World], list[Callable[[Sched, int], None]]],
                 pre: dict[int, int]) -> tuple[World, Sched]:
    w = make_world()
    progs = programs_for(w)
    s = Sched(len(progs), pre, w)
    s.run(progs)
    return w, s
