"""./vcheck entry: dispatches to checks/cXX.py, owns exit codes.

exit 0  property held on everything explored (KNOWN-FINDING lines allowed)
exit 1  at least one VIOLATION line printed
exit 2  harness error (never reported as a violation)
"""

from __future__ import annotations

import argparse
import importlib
import json
import logging
import os
import sys
import traceback


def main() -> int:
    ap = argparse.ArgumentParser()
    ap.add_argument("prop")
    ap.add_argument("--tier", default=os.environ.get("VERIF_TIER", "quick"))
    ap.add_argument("--replay", default=None)
    ap.add_argument("--jobs", type=int, default=int(os.environ.get("VERIF_JOBS", "0")) or (os.cpu_count() or 4))
    args = ap.parse_args()
    tier = args.tier if args.tier in ("quick", "thorough") else "quick"
    try:
        seed = int(os.environ.get("VERIF_SEED", "1"))
    except ValueError:
        seed = 1

    logging.disable(logging.CRITICAL)  # the engine logs every ignored duplicate; the ledger is our record
    prop = args.prop.upper()
    try:
        mod = importlib.import_module(f"checks.{prop.lower()}")
    except Exception:
        traceback.print_exc()
        print(f"HARNESS-ERROR: cannot import check {prop}")
        return 2

    from vlib.campaign import Campaign, finish

    camp = Campaign(prop, tier, seed, getattr(mod, "LEVEL", "exploration"))
    try:
        if args.replay:
            with open(args.replay) as f:
                rec = json.load(f)
            return mod.replay(camp, rec)
        mod.run(camp, jobs=args.jobs)
        # replay tier: saved (shrunk) witnesses of earlier failures are re-judged on every run
        import glob

        home = os.environ.get("VERIF_HOME", ".")
        for path in sorted(glob.glob(os.path.join(home, "corpus", "regress", f"{prop}-*.json"))):
            if hasattr(mod, "regress"):
                with open(path) as f:
                    mod.regress(camp, json.load(f))
                camp.count("regression-witness-replayed")
    except SystemExit:
        raise
    except BaseException:
        traceback.print_exc()
        print(f"HARNESS-ERROR: property={prop} check crashed (not a verdict)")
        return 2
    return finish(camp)


if __name__ == "__main__":
    sys.stdout.reconfigure(line_buffering=True)
    sys.exit(main())
