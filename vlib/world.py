"""World: one stabilize engine instance under observation (DESIGN.md 2.1 / 2.2).

Everything here works from *outside* /repo: a substitute for the ``sqlite3`` name inside
``stabilize.persistence.connection`` hands out connections of our subclass (commit hook,
pre-statement hook, snapshot/restore), SQL triggers in the database under test give a
durable-only audit of status changes and queue inserts/deletes, and a scripted Task keeps
a ledger of executions in harness memory.
"""

from __future__ import annotations

import sqlite3 as _sqlite3
import threading
import types
from typing import Any, Callable

URL = "sqlite:///:memory:"
FAR_FUTURE = "2100-01-01T00:00:00+00:00"
LONG_AGO = "2000-01-01T00:00:00+00:00"


# --------------------------------------------------------------------------- connection shim

class VConn(_sqlite3.Connection):
    """sqlite3.Connection with a commit hook and a pre-statement hook."""

    v_on_commit: Callable[["VConn"], None] | None = None
    v_before_execute: Callable[["VConn", str], None] | None = None
    v_commits = 0
    v_quiet = 0  # >0 while the harness itself writes (its commits are not engine commits)

    def commit(self) -> None:  # type: ignore[override]
        was = self.in_transaction
        super().commit()
        if was and not self.v_quiet:
            self.v_commits += 1
            hook = self.v_on_commit
            if hook is not None:
                hook(self)

    def execute(self, sql: str, parameters: Any = (), /) -> Any:  # type: ignore[override]
        hook = self.v_before_execute
        if hook is not None and not self.v_quiet:
            hook(self, sql)
        return super().execute(sql, parameters)


class _Shim(types.ModuleType):
    """Stand-in for the sqlite3 module inside stabilize.persistence.connection."""

    def __init__(self) -> None:
        super().__init__("sqlite3_vshim")
        self.__dict__.update({k: getattr(_sqlite3, k) for k in dir(_sqlite3) if not k.startswith("__") and k != "connect"})
        self.v_restore_blob: bytes | None = None
        self.v_shared: VConn | None = None
        self.v_share = False
        self.v_last: VConn | None = None
        self.v_on_connect: Callable[[VConn], None] | None = None

    def connect(self, database: str, *a: Any, **kw: Any) -> VConn:  # noqa: D401
        if self.v_share and self.v_shared is not None:
            return self.v_shared
        kw["factory"] = VConn
        kw["check_same_thread"] = False
        conn = _sqlite3.connect(database, *a, **kw)
        if self.v_restore_blob is not None and database == ":memory:":
            conn.deserialize(self.v_restore_blob)
        if self.v_share:
            self.v_shared = conn
        self.v_last = conn
        if self.v_on_connect is not None:
            self.v_on_connect(conn)
        return conn


SHIM = _Shim()


def install_shim() -> None:
    import stabilize.persistence.connection as pc

    if pc.sqlite3 is not SHIM:
        pc.sqlite3 = SHIM  # type: ignore[assignment]


_sleep_patched = False


def patch_sleeps(yield_fn: Callable[[], None] | None = None) -> None:
    """Retry back-offs inside the engine become no-ops (or scheduler yields)."""
    global _sleep_patched
    import resilient_circuit.retry as rr

    def nosleep(_s: float = 0) -> None:
        if yield_fn is not None:
            yield_fn()

    rr.sleep = nosleep  # ``from time import sleep`` inside resilient_circuit.retry
    _sleep_patched = True


# --------------------------------------------------------------------------- process state

_shared_bulkheads = None


def shared_bulkheads():
    """One TaskBulkheadManager per harness process (its thread pools are reused across Worlds)."""
    global _shared_bulkheads
    if _shared_bulkheads is None:
        from stabilize.resilience.bulkheads import TaskBulkheadManager
        from stabilize.resilience.config import ResilienceConfig

        _shared_bulkheads = TaskBulkheadManager(ResilienceConfig.from_env())
    return _shared_bulkheads


def reset_process_state() -> None:
    """Everything a fresh worker process would not have: the engine's in-memory singletons."""
    from stabilize.events import reset_event_bus, reset_event_migrator, reset_event_recorder
    from stabilize.handlers.run_task.handler import RunTaskHandler
    from stabilize.persistence.connection import ConnectionManager, SingletonMeta
    from stabilize.queue.dedup import reset_deduplicator
    from stabilize.resilience.cancellation import reset_cancellation_state

    SingletonMeta.reset(ConnectionManager)
    SHIM.v_shared = None
    reset_deduplicator()
    RunTaskHandler._executing_tasks.clear()
    reset_cancellation_state()
    reset_event_bus()
    reset_event_recorder()
    reset_event_migrator()
    try:
        from stabilize.finalizers import get_finalizer_registry

        reg = get_finalizer_registry()
        if hasattr(reg, "clear"):
            reg.clear()
    except Exception:  # noqa: BLE001
        pass


AUDIT_SQL = """
CREATE TABLE IF NOT EXISTS v_ctx(id INTEGER PRIMARY KEY CHECK (id = 1), step INTEGER, writer TEXT);
INSERT OR IGNORE INTO v_ctx VALUES (1, 0, 'init');
CREATE TABLE IF NOT EXISTS v_audit(seq INTEGER PRIMARY KEY AUTOINCREMENT, step INTEGER, writer TEXT,
    kind TEXT, id TEXT, old TEXT, new TEXT);
CREATE TABLE IF NOT EXISTS v_qlog(seq INTEGER PRIMARY KEY AUTOINCREMENT, step INTEGER, writer TEXT,
    op TEXT, tbl TEXT, row_id INTEGER, message_type TEXT, payload TEXT);
CREATE TRIGGER IF NOT EXISTS v_t_wf AFTER UPDATE OF status ON pipeline_executions WHEN OLD.status IS NOT NEW.status
BEGIN INSERT INTO v_audit(step, writer, kind, id, old, new) SELECT step, writer, 'workflow', NEW.id, OLD.status, NEW.status FROM v_ctx; END;
CREATE TRIGGER IF NOT EXISTS v_t_stage AFTER UPDATE OF status ON stage_executions WHEN OLD.status IS NOT NEW.status
BEGIN INSERT INTO v_audit(step, writer, kind, id, old, new) SELECT step, writer, 'stage', NEW.id, OLD.status, NEW.status FROM v_ctx; END;
CREATE TRIGGER IF NOT EXISTS v_t_task AFTER UPDATE OF status ON task_executions WHEN OLD.status IS NOT NEW.status
BEGIN INSERT INTO v_audit(step, writer, kind, id, old, new) SELECT step, writer, 'task', NEW.id, OLD.status, NEW.status FROM v_ctx; END;
CREATE TRIGGER IF NOT EXISTS v_t_stage_ins AFTER INSERT ON stage_executions
BEGIN INSERT INTO v_audit(step, writer, kind, id, old, new) SELECT step, writer, 'stage', NEW.id, NULL, NEW.status FROM v_ctx; END;
CREATE TRIGGER IF NOT EXISTS v_t_task_ins AFTER INSERT ON task_executions
BEGIN INSERT INTO v_audit(step, writer, kind, id, old, new) SELECT step, writer, 'task', NEW.id, NULL, NEW.status FROM v_ctx; END;
CREATE TRIGGER IF NOT EXISTS v_t_q_ins AFTER INSERT ON queue_messages
BEGIN INSERT INTO v_qlog(step, writer, op, tbl, row_id, message_type, payload) SELECT step, writer, 'ins', 'q', NEW.id, NEW.message_type, NEW.payload FROM v_ctx; END;
CREATE TRIGGER IF NOT EXISTS v_t_q_del AFTER DELETE ON queue_messages
BEGIN INSERT INTO v_qlog(step, writer, op, tbl, row_id, message_type, payload) SELECT step, writer, 'del', 'q', OLD.id, OLD.message_type, OLD.payload FROM v_ctx; END;
CREATE TRIGGER IF NOT EXISTS v_t_dlq_ins AFTER INSERT ON queue_messages_dlq
BEGIN INSERT INTO v_qlog(step, writer, op, tbl, row_id, message_type, payload) SELECT step, writer, 'ins', 'dlq', NEW.id, NEW.message_type, NEW.payload FROM v_ctx; END;
CREATE TRIGGER IF NOT EXISTS v_t_dlq_del AFTER DELETE ON queue_messages_dlq
BEGIN INSERT INTO v_qlog(step, writer, op, tbl, row_id, message_type, payload) SELECT step, writer, 'del', 'dlq', OLD.id, OLD.message_type, OLD.payload FROM v_ctx; END;
"""


class World:
    """A fresh (or restored) engine: store + queue + processor on one in-memory database."""

    def __init__(
        self,
        restore: bytes | None = None,
        events: bool = False,
        trust_negative: bool = False,
        dedup: bool = True,
        share_connection: bool = False,
        bloom_items: int = 2000,
    ) -> None:
        from stabilize import Orchestrator, QueueProcessor, SqliteQueue, SqliteWorkflowStore
        from stabilize.queue.dedup import get_deduplicator
        from stabilize.queue.processor.config import QueueProcessorConfig

        from vlib import tasks

        install_shim()
        patch_sleeps()
        reset_process_state()
        SHIM.v_restore_blob = restore
        SHIM.v_share = share_connection
        SHIM.v_shared = None
        self.events_enabled = events
        self.store = SqliteWorkflowStore(URL, create_tables=True)
        SHIM.v_restore_blob = None  # only the first connection of a restart is the restored one
        self.conn: VConn = self.store._get_connection()  # type: ignore[assignment]
        self.queue = SqliteQueue(URL, table_name="queue_messages")
        self.queue._create_table()
        self._harness_sql(AUDIT_SQL, script=True)
        self.event_store = None
        if events:
            from stabilize.events import SqliteEventStore, configure_event_sourcing

            self.event_store = SqliteEventStore(URL, create_tables=True)
            configure_event_sourcing(self.event_store)
        self.registry = tasks.make_registry()
        tasks.register_builders()
        get_deduplicator(expected_items=bloom_items)
        cfg = QueueProcessorConfig(enable_deduplication=dedup, dedup_trust_negative_cache=trust_negative,
                                   enable_lock_heartbeat=False)
        self.processor = QueueProcessor(self.queue, config=cfg, store=self.store, task_registry=self.registry,
                                        bulkhead_manager=shared_bulkheads())
        self.orch = Orchestrator(self.queue, self.store)
        self.handler_calls: list[tuple[str, str]] = []
        self._wrap_handlers()
        self.step = self.scalar("SELECT step FROM v_ctx") or 0

    def _wrap_handlers(self) -> None:
        """Count handler invocations per message id (C09) through the public replace_handler()."""
        from stabilize.queue.processor.handler_base import MessageHandler

        calls = self.handler_calls
        # message ids whose NEXT handling fails after the handler has returned (i.e. after its commit): what a handler's own
        # post-commit work (audit sink, event bus subscriber) does when it raises
        self.fault_after: set[str] = set()
        faults = self.fault_after

        def proxy_for(inner):  # noqa: ANN001
            class Proxy(MessageHandler):  # type: ignore[type-arg]
                @property
                def message_type(self):  # noqa: ANN001
                    return inner.message_type

                def handle(self, message):  # noqa: ANN001
                    mid = str(getattr(message, "message_id", None))
                    calls.append((mid, inner.message_type.__name__))
                    r = inner.handle(message)
                    if mid in faults:
                        faults.discard(mid)
                        raise RuntimeError("injected failure after the handler returned (post-commit work of the handler failed)")
                    return r

            p = Proxy()
            p.inner = inner  # type: ignore[attr-defined]
            return p

        for h in list(self.processor._handlers.values()):
            self.processor.replace_handler(proxy_for(h))

    # ---- harness-side SQL (never counted as engine commits) ------------------
    def _harness_sql(self, sql: str, params: Any = (), script: bool = False) -> None:
        c = self.conn
        c.v_quiet += 1
        try:
            if script:
                c.executescript(sql)
            else:
                _sqlite3.Connection.execute(c, sql, params)
            _sqlite3.Connection.commit(c)
        finally:
            c.v_quiet -= 1

    def rows(self, sql: str, params: Any = ()) -> list[Any]:
        return _sqlite3.Connection.execute(self.conn, sql, params).fetchall()

    def scalar(self, sql: str, params: Any = ()) -> Any:
        r = _sqlite3.Connection.execute(self.conn, sql, params).fetchone()
        return r[0] if r else None

    def set_ctx(self, step: int, writer: str) -> None:
        self.step = step
        from vlib import tasks

        tasks.CURRENT["step"] = step
        self._harness_sql("UPDATE v_ctx SET step = ?, writer = ?", (step, writer))

    def snapshot(self) -> bytes:
        return self.conn.serialize()

    # ---- queue inspection / steering -------------------------------------------
    def pending(self) -> list[dict[str, Any]]:
        out = []
        for r in self.rows("SELECT id, message_type, payload, attempts, deliver_at, locked_until FROM queue_messages ORDER BY id"):
            out.append({"id": r[0], "type": r[1], "payload": r[2], "attempts": r[3], "deliver_at": r[4], "locked_until": r[5]})
        return out

    def queue_size(self) -> int:
        return self.scalar("SELECT COUNT(*) FROM queue_messages")

    def dlq_size(self) -> int:
        return self.scalar("SELECT COUNT(*) FROM queue_messages_dlq")

    def make_only_due(self, row_id: int) -> None:
        """Time passes / locks lapse for exactly one row: it becomes the one deliverable message."""
        c = self.conn
        c.v_quiet += 1
        try:
            _sqlite3.Connection.execute(c, "UPDATE queue_messages SET deliver_at = ? WHERE id != ?", (FAR_FUTURE, row_id))
            _sqlite3.Connection.execute(c, "UPDATE queue_messages SET deliver_at = ?, locked_until = NULL WHERE id = ?", (LONG_AGO, row_id))
            _sqlite3.Connection.commit(c)
        finally:
            c.v_quiet -= 1

    def lapse_all_locks(self) -> None:
        self._harness_sql("UPDATE queue_messages SET locked_until = NULL")

    # ---- results ---------------------------------------------------------------
    def audit(self) -> list[tuple[Any, ...]]:
        return [tuple(r) for r in self.rows("SELECT seq, step, writer, kind, id, old, new FROM v_audit ORDER BY seq")]

    def qlog(self) -> list[tuple[Any, ...]]:
        return [tuple(r) for r in self.rows("SELECT seq, step, writer, op, tbl, row_id, message_type, payload FROM v_qlog ORDER BY seq")]

    def close(self) -> None:
        reset_process_state()


_lock = threading.Lock()
